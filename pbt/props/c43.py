"""C43 Unit conversion is consistent and simulations are unit-invariant.

Spec kinds
* {"kind": "convert", "scales": {"m": .., "kg": .., "K": .., "mol": .., "rad": .., "s": 1|absent}, "tokens": [[name, power|null], ...],
   "spaces": [..ints..], "split": k, "value": {"type": "float"|"int"|"array", "v": ...}}
  unit string = tokens joined by "*", a token is "name" or "name^power"; names are base units (m, s, kg, K, mol, rad)
  and derived units (Pa, J, N, W, degree).  An empty token list stands for one of the dimensionless strings.
* {"kind": "material", "cls": 0..3, "scales": {...}, "scales2": {...}, "mask": [bool...], "vals": [...]}
  cls indexes (FluidComponent, SolidConstants, NumericalConstants, ReferenceVariableValues); field i (sorted names of
  SI_units) gets value vals[i] if mask[i], otherwise keeps its default.
* {"kind": "sim", "m": scale, "kg": scale, "fracs": [...], "n": cells per side, "newton": K, "steps": k, "dt": s,
   "dp": Pa, "p_ref": Pa, "compressibility": 1/Pa, "viscosity", "permeability", "normal_permeability", "aperture"}
  single-phase flow on the unit square with 0..2 orthogonal fractures (Cartesian md-grid), run with pp.Units() and with
  pp.Units(m=.., kg=..); exactly K Newton iterations per time step in both runs.
"""
from __future__ import annotations

import math
import os
from fractions import Fraction

import numpy as np
from hypothesis import strategies as st

from ..core import ROOT, HarnessError, require, require_close, require_equal

ID = "C43"
RULE = (
    "Hypothesis draws one of three cases. convert: unit scalings of m, kg, K, mol, rad as powers of ten 10^[-3,3] or "
    "arbitrary floats in [1e-3, 1e3] (s = 1: other time scalings are rejected by Units), a unit string from the grammar "
    "unit(^int)? joined by '*' with optional blanks over base units and the derived Pa, J, N, W, degree (or one of the "
    "dimensionless strings '', '1', '-'), and a value (float, int or float array); oracle: convert_units == value / "
    "prod(base_scale^exponent) with the exponents expanded by the check and the product formed in exact rational "
    "arithmetic (1e-12 relative), to_si round trip returns the value, the string split at a random '*' converts like "
    "the two parts in sequence, every derived unit converts like its base-unit expression, converting the same array object twice gives the same "
    "result. material: one of the four Constants classes with random SI values for a random subset of fields: stored "
    "values == oracle conversion of the SI value under its declared unit, constants_in_SI keeps the SI values exactly, "
    "to_units(other) == direct construction in the other system, to_units(pp.Units()) and convert_units(.., to_si=True) "
    "give back the SI values. sim (about 1 % of the cases): SinglePhaseFlow on a Cartesian unit-square md-grid with "
    "0..2 fractures, run unscaled and with (m, kg) scaled by powers of ten / small integers, with a fixed number of "
    "Newton iterations per step; pressure (1e-7 of the largest deviation from the reference pressure) and interface Darcy flux (1e-6 of its maximum) converted to SI agree; pairs in which the sparse solver left a relative residual > 1e-9 are discarded and counted. "
    "Non-trivial = >= 2 tokens / >= 2 converted fields / any sim; distinct = hash of spec. Two fifths of the unit systems scale exactly one base unit (m, kg, K, mol or rad) with all others exactly 1, mostly with every material constant given a non-zero value."
)
BUDGET = {"quick": {"cases": 4000, "seconds": 45}, "thorough": {"cases": 200000, "seconds": 1100}}
TECHNIQUE = "property-based testing (Hypothesis): exact-rational reference for conversions, round trip, metamorphic unit scaling of a flow simulation"
LEVEL_TEXT = ("Exploration: thousands of generated unit systems, composed unit strings (base and derived units, integer "
              "powers, blanks), values and material constant sets per run are converted and compared with an exact "
              "rational reference, converted back, and composed; tens (quick) to about a thousand (thorough) small "
              "single-phase flow models on fractured Cartesian grids are run twice, unscaled and with scaled length and "
              "mass units, and their primary variables compared in SI.")
LEVEL_NOTE = ("Time unit fixed to 1 s (the library rejects anything else). The simulation part is a small sample: 2x2 to "
              "4x4 cells, 0-2 fractures, single-phase flow only, a fixed number of Newton iterations in both runs (the "
              "library's convergence tolerances are absolute numbers in scaled units and therefore not unit-invariant "
              "by design). Tolerances 1e-12 (conversions), 1e-7 / 1e-6 (simulation pressure / interface flux). Finds violations, does not prove absence.")
DESIGN_REF = "DESIGN.md section 4, C43"
ASSUMPTIONS = [
    "unit strings use only '*' and '^' with integer powers (the documented operators); the time unit is 1 s",
    "values converted in place are floats, ints or float arrays (integer arrays cannot be divided in place by numpy)",
    "simulation: both runs perform the same fixed number of Newton iterations per time step (harness-side check_convergence); Newton's method is invariant under the scaling of unknowns and equations, so the iterates must agree in SI",
    "simulation: meshing arguments and boundary values are given in SI and converted with the model's units, as the repository's own unit tests do",
    "simulation: material values of moderate size (permeability 1e-3..1, viscosity 1e-3..1, aperture 1e-2..1e-1) so that the Jacobian is well conditioned in every generated unit system; with the granite / water values of the repository's test the sparse direct solvers return solutions with relative residuals up to 0.25 for some unit systems, which says nothing about units",
]
REQUIRED = {
    "convert": 0.3, "material": 0.2, "sim": 0.003, "units-single-base-scaled": 0.05, "units-rad-scaled": 0.005,
    "tok-derived": 0.1, "tok-power": 0.1, "tok-negative-power": 0.05, "dimensionless": 0.02, "with-blanks": 0.1,
    "value-array": 0.05, "value-int": 0.05, "scales-pow10": 0.1, "scales-float": 0.1,
    "mat-FluidComponent": 0.03, "mat-SolidConstants": 0.03, "mat-NumericalConstants": 0.03,
    "mat-ReferenceVariableValues": 0.03,
}

BASE = ["m", "s", "kg", "K", "mol", "rad"]
DERIVED = {"Pa": {"kg": 1, "m": -1, "s": -2}, "J": {"kg": 1, "m": 2, "s": -2}, "N": {"kg": 1, "m": 1, "s": -2},
           "W": {"kg": 1, "m": 2, "s": -3}, "degree": {"rad": 1}}
DEG = 180.0 / math.pi
MAT_CLASSES = ["FluidComponent", "SolidConstants", "NumericalConstants", "ReferenceVariableValues"]

# ----------------------------------------------------------------------------- strategies
_scale = st.one_of(st.integers(-3, 3).map(lambda k: 10.0 ** k), st.sampled_from([2, 3, 1000, 0.5]),
                   st.floats(1e-3, 1e3, allow_nan=False))
_num = st.one_of(st.just(0.0), st.integers(-1000, 1000).map(float),
                 st.builds(lambda m, e, sg: sg * m * 10.0 ** e, st.floats(1.0, 9.999, allow_nan=False),
                           st.integers(-6, 5), st.sampled_from([-1.0, 1.0])))


@st.composite
def _scales(draw):
    mode = draw(st.sampled_from(["pow10", "float", "mixed", "single", "single"]))
    out = {}
    if mode == "single":
        # exactly one base unit is scaled, every other one is exactly 1 (absent, 1 or 1.0)
        key = draw(st.sampled_from(["m", "kg", "K", "mol", "rad", "rad"]))
        for k in ["m", "kg", "K", "mol", "rad", "s"]:
            if k == key:
                out[k] = draw(st.one_of(st.sampled_from([1e-3, 1e3, 2, 0.5]), st.floats(1e-3, 0.9), st.floats(1.1, 1e3)))
            elif draw(st.booleans()):
                out[k] = draw(st.sampled_from([1, 1.0]))
        return out
    for k in ["m", "kg", "K", "mol", "rad"]:
        if draw(st.integers(0, 3)) == 0:
            continue  # left at its default 1
        if mode == "pow10":
            out[k] = 10.0 ** draw(st.integers(-3, 3))
        elif mode == "float":
            out[k] = draw(st.floats(1e-3, 1e3, allow_nan=False))
        else:
            out[k] = draw(_scale)
    if draw(st.integers(0, 3)) == 0:
        out["s"] = draw(st.sampled_from([1, 1.0]))
    return out


@st.composite
def _convert(draw):
    ntok = draw(st.sampled_from([0, 1, 1, 2, 2, 3, 4, 5]))
    tokens = []
    for _ in range(ntok):
        name = draw(st.sampled_from(BASE + BASE + list(DERIVED)))
        power = draw(st.one_of(st.none(), st.integers(-3, 3)))
        tokens.append([name, power])
    vt = draw(st.sampled_from(["float", "float", "int", "array"]))
    if vt == "float":
        v = draw(_num)
    elif vt == "int":
        v = draw(st.integers(-10 ** 6, 10 ** 6))
    else:
        v = draw(st.lists(_num, min_size=1, max_size=4))
    return {"kind": "convert", "scales": draw(_scales()), "tokens": tokens,
            "spaces": draw(st.lists(st.integers(0, 2), min_size=12, max_size=12)),
            "dimless": draw(st.sampled_from(["", "1", "-", " - ", " "])),
            "split": draw(st.integers(1, max(1, ntok - 1))), "value": {"type": vt, "v": v}}


@st.composite
def _material(draw):
    scales = draw(_scales())
    single = [k for k, v in scales.items() if v != 1]
    cls = draw(st.integers(0, 3))
    mask = draw(st.lists(st.booleans(), min_size=24, max_size=24))
    vals = draw(st.lists(st.one_of(_num, st.integers(-100, 100)), min_size=24, max_size=24))
    if len(single) == 1 and draw(st.integers(0, 2)) > 0:
        # one scaled base unit: give every constant a non-zero value (incl. the angle-valued ones of SolidConstants)
        mask = [True] * 24
        vals = [v if v != 0 else 0.25 for v in vals]
        if single == ["rad"] and draw(st.booleans()):
            cls = 1
    return {"kind": "material", "cls": cls, "scales": scales, "scales2": draw(_scales()), "mask": mask, "vals": vals}


@st.composite
def _sim(draw):
    if draw(st.booleans()):
        m, kg = 10.0 ** draw(st.integers(-3, 3)), 10.0 ** draw(st.integers(-3, 3))
    else:
        m, kg = draw(st.sampled_from([2, 3, 0.5, 10.0, 1000.0])), draw(st.sampled_from([3, 2, 0.25, 1e-3, 100.0]))
    fracs = draw(st.sampled_from([[], [0], [1], [0, 1], [0, 1]]))
    # the fractures sit at x = 1/2 and y = 1/2: a Cartesian md-grid needs them on grid lines, hence an even cell count
    n = draw(st.sampled_from([2, 2, 4] if fracs else [2, 3, 4]))
    # material values of moderate size: the Jacobian stays well conditioned (<= ~1e8 after equilibration) in every
    # unit system that is generated, so that the sparse direct solver is accurate in both runs
    return {"kind": "sim", "m": m, "kg": kg, "fracs": fracs, "n": n, "newton": draw(st.sampled_from([1, 2, 4])),
            "steps": draw(st.sampled_from([1, 2])), "dt": draw(st.sampled_from([1.0, 100.0])),
            "dp": draw(st.sampled_from([1.0, 1e3, 1e5])), "p_ref": draw(st.sampled_from([0.0, 101325.0])),
            "compressibility": draw(st.sampled_from([0.0, 1e-8, 1e-6])),
            "viscosity": draw(st.sampled_from([1.0, 1e-3])),
            "permeability": draw(st.sampled_from([1.0, 1e-2, 1e-3])),
            "normal_permeability": draw(st.sampled_from([1.0, 0.1])),
            "aperture": draw(st.sampled_from([0.1, 0.01]))}


def strategy(tier):
    sim_one_in = 100 if tier == "quick" else 250

    @st.composite
    def pick(draw):
        if draw(st.integers(0, sim_one_in - 1)) == 0:
            return draw(_sim())
        return draw(st.one_of(_convert(), _convert(), _material()))

    return pick()


# ----------------------------------------------------------------------------- reference model of the unit algebra
def _exponents(tokens):
    """Exponents over the base units, and the exponent of the degree factor 180/pi."""
    e = {b: 0 for b in BASE}
    edeg = 0
    for name, power in tokens:
        p = 1 if power is None else int(power)
        if name in DERIVED:
            for b, k in DERIVED[name].items():
                e[b] += k * p
            if name == "degree":
                edeg += p
        else:
            e[name] += p
    return e, edeg


def _factor(scales, tokens):
    """The number a SI value is divided by: prod base_scale^exponent (exact rational) times (180/pi)^edeg."""
    e, edeg = _exponents(tokens)
    f = Fraction(1)
    for b, k in e.items():
        f *= Fraction(scales.get(b, 1)) ** k
    return float(f) * DEG ** edeg


def _string(tokens, spaces, lo=0):
    parts = []
    for i, (name, power) in enumerate(tokens):
        sp = " " * spaces[(lo + i) % len(spaces)]
        parts.append(f"{sp}{name}{sp}" if power is None else f"{sp}{name}{sp}^{sp}{int(power)}")
    return "*".join(parts)


def _base_string(name, power):
    p = 1 if power is None else int(power)
    return "*".join(f"{b}^{k * p}" for b, k in DERIVED[name].items())


def _units(scales):
    import porepy as pp

    return pp.Units(**{k: (int(v) if isinstance(v, int) else float(v)) for k, v in scales.items()})


def _scale_labels(scales):
    vals = [v for k, v in scales.items() if k != "s"]
    labs = []
    if vals and all(abs(math.log10(v) - round(math.log10(v))) < 1e-12 for v in vals):
        labs.append("scales-pow10")
    elif vals:
        labs.append("scales-float")
    return labs


# ----------------------------------------------------------------------------- check
def check(s):
    if s["kind"] == "convert":
        return _check_convert(s)
    if s["kind"] == "material":
        return _check_material(s)
    return _check_sim(s)


def _check_convert(s):
    U = _units(s["scales"])
    tokens = s["tokens"]
    vt = s["value"]["type"]
    if vt == "array":
        x = np.array(s["value"]["v"], dtype=float)
    elif vt == "int":
        x = int(s["value"]["v"])
    else:
        x = float(s["value"]["v"])
    xf = np.asarray(x, dtype=float)
    labels = ["convert", f"value-{vt}"] + _scale_labels(s["scales"])

    def conv(val, string, to_si=False):
        if not isinstance(val, np.ndarray):
            return U.convert_units(val, string, to_si=to_si)
        # A caller typically keeps the array and converts it again later (boundary values are converted on every
        # call). Whether convert_units leaves its argument alone is not demanded by itself; converting the same array
        # object twice must give the same result.
        arg = val.copy()
        out = U.convert_units(arg, string, to_si=to_si)
        require(isinstance(out, np.ndarray) and out.shape == val.shape, "convert-type", f"{type(out)}")
        first = np.array(out, dtype=float, copy=True)
        again = U.convert_units(arg, string, to_si=to_si)
        require_equal(np.asarray(again, dtype=float), first, "convert-repeat",
                      "converting the same array object a second time gives a different result")
        return first

    if not tokens:
        labels.append("dimensionless")
        out = conv(x, s["dimless"])
        require_equal(np.asarray(out, dtype=float), xf, "convert-dimensionless", f"units {s['dimless']!r}")
        back = conv(x, s["dimless"], to_si=True)
        require_equal(np.asarray(back, dtype=float), xf, "convert-dimensionless", f"units {s['dimless']!r}, to_si")
        return {"labels": labels, "nontrivial": False}

    string = _string(tokens, s["spaces"])
    if " " in string:
        labels.append("with-blanks")
    if any(t[0] in DERIVED for t in tokens):
        labels.append("tok-derived")
    if any(t[1] is not None for t in tokens):
        labels.append("tok-power")
    if any(t[1] is not None and t[1] < 0 for t in tokens):
        labels.append("tok-negative-power")

    f = _factor(s["scales"], tokens)
    exp = xf / f
    scale = float(np.max(np.abs(exp))) if exp.size else 0.0
    out = conv(x, string)
    require_close(out, exp, "convert-value", rtol=1e-12, atol=0.0, scale=scale,
                  what=f"convert_units(x, {string!r}) vs x / {f!r}")
    # to SI and back
    back = conv(out, string, to_si=True)
    require_close(back, xf, "convert-roundtrip", rtol=1e-12, atol=0.0, scale=float(np.max(np.abs(xf))) if xf.size else 0.0,
                  what=f"convert_units(convert_units(x, u), u, to_si=True), u = {string!r}")
    up = conv(x, string, to_si=True)
    require_close(up, xf * f, "convert-to-si", rtol=1e-12, atol=0.0, scale=float(np.max(np.abs(xf * f))),
                  what=f"convert_units(x, {string!r}, to_si=True) vs x * {f!r}")
    # composition: "a*b" == a then b
    if len(tokens) >= 2:
        k = min(s["split"], len(tokens) - 1)
        a, b = _string(tokens[:k], s["spaces"]), _string(tokens[k:], s["spaces"], lo=k)
        seq = conv(conv(x, a), b)
        require_close(seq, out, "convert-composition", rtol=1e-12, atol=0.0, scale=scale,
                      what=f"convert(x, {string!r}) vs convert(convert(x, {a!r}), {b!r})")
    # derived units == their base-unit expressions
    for name, power in tokens:
        if name in DERIVED and name != "degree":
            d = conv(x, _string([[name, power]], [0]))
            e = conv(x, _base_string(name, power))
            require_close(d, e, "convert-derived", rtol=1e-12, atol=0.0,
                          scale=float(np.max(np.abs(np.asarray(e, dtype=float)))),
                          what=f"{name}^{power} vs {_base_string(name, power)}")
        if name == "degree":
            p = 1 if power is None else int(power)
            d = conv(x, _string([[name, power]], [0]))
            e = np.asarray(conv(x, f"rad^{p}"), dtype=float) / DEG ** p
            require_close(d, e, "convert-degree", rtol=1e-12, atol=0.0, scale=float(np.max(np.abs(e))),
                          what=f"degree^{p} vs rad^{p} * (pi/180)^{p}")
    return {"labels": labels, "nontrivial": len(tokens) >= 2}


def _parse_si(unit):
    """Tokens of a unit string declared in SI_units (written by the library in the same grammar)."""
    u = unit.replace(" ", "")
    if u in ("", "1", "-"):
        return []
    toks = []
    for part in u.split("*"):
        if "^" in part:
            n, p = part.split("^")
            toks.append([n, int(p)])
        else:
            toks.append([part, None])
    return toks


def _check_material(s):
    import porepy as pp

    cname = MAT_CLASSES[s["cls"]]
    cls = getattr(pp, cname)
    names = sorted(cls.SI_units)
    if len(names) > len(s["mask"]):
        raise HarnessError(f"{cname} has {len(names)} fields, spec provides {len(s['mask'])}")
    given = {}
    for i, n in enumerate(names):
        if s["mask"][i]:
            v = s["vals"][i]
            given[n] = int(v) if isinstance(v, int) else float(v)
    U, U2 = _units(s["scales"]), _units(s["scales2"])
    obj = cls(name="stuff", units=U, **given)
    labels = ["material", f"mat-{cname}"] + _scale_labels(s["scales"])
    scaled = [k for k, v in s["scales"].items() if v != 1]
    if len(scaled) == 1:
        labels.append("units-single-base-scaled")
        if scaled == ["rad"] and any("rad" in cls.SI_units[n] or "degree" in cls.SI_units[n] for n in given
                                     if given[n] != 0):
            labels.append("units-rad-scaled")

    def expected(v, n, scales):
        return float(v) / _factor(scales, _parse_si(cls.SI_units[n]))

    def compare(o, scales, tag):
        for n in names:
            si = o.constants_in_SI[n]
            got = getattr(o, n)
            toks = _parse_si(cls.SI_units[n])
            if not toks:
                require(got == si, f"{tag}-dimensionless", f"{cname}.{n}: {got!r} != {si!r}")
                continue
            e = expected(si, n, scales)
            require_close(got, e, f"{tag}-value", rtol=1e-12, atol=0.0, scale=abs(e),
                          what=f"{cname}.{n} [{cls.SI_units[n]}] from SI value {si!r}")

    for n, v in given.items():
        require(obj.constants_in_SI[n] == v, "material-si-kept", f"constants_in_SI[{n}] = {obj.constants_in_SI[n]!r} != {v!r}")
    require(sorted(obj.constants_in_SI) == names, "material-si-fields", f"{sorted(obj.constants_in_SI)}")
    compare(obj, s["scales"], "material")
    # back to SI: through convert_units and through to_units(SI)
    for n in names:
        si = float(obj.constants_in_SI[n])
        back = U.convert_units(getattr(obj, n), cls.SI_units[n], to_si=True)
        require_close(back, si, "material-back-to-si", rtol=1e-12, atol=0.0, scale=abs(si), what=f"{cname}.{n}")
    si_obj = obj.to_units(pp.Units())
    require(type(si_obj) is cls and si_obj.name == obj.name, "material-to-units-type", f"{type(si_obj)}")
    for n in names:
        require_close(getattr(si_obj, n), float(obj.constants_in_SI[n]), "material-to-si-units", rtol=1e-12, atol=0.0,
                      scale=abs(float(obj.constants_in_SI[n])), what=f"{cname}.{n} after to_units(pp.Units())")
    # to another unit system == direct construction there; SI record unchanged
    other = obj.to_units(U2)
    require(other.units is U2, "material-to-units-units", "units of the converted object")
    require(dict(other.constants_in_SI) == dict(obj.constants_in_SI), "material-to-units-si", "constants_in_SI changed")
    compare(other, s["scales2"], "material-to-units")
    # and the source object is untouched
    compare(obj, s["scales"], "material-after-to-units")
    nconv = sum(1 for n in given if _parse_si(cls.SI_units[n]))
    return {"labels": labels, "nontrivial": nconv >= 2}


# ----------------------------------------------------------------------------- simulation invariance
_MODEL = {}


def _model_class():
    if "cls" not in _MODEL:
        import porepy as pp
        from porepy.applications.md_grids.model_geometries import SquareDomainOrthogonalFractures
        from porepy.models.fluid_mass_balance import SinglePhaseFlow

        class FlowModel(SquareDomainOrthogonalFractures, SinglePhaseFlow):
            """Single-phase flow, unit square, up to two orthogonal fractures; pressure raised on the east side."""

            def bc_values_pressure(self, bg):
                vals = self.reference_variable_values.pressure * np.ones(bg.num_cells)
                faces = self.domain_boundary_sides(bg).east
                vals[faces] += self.units.convert_units(self.params["c43_dp"], "Pa")
                return vals

            def check_convergence(self, nonlinear_increment, residual, reference_residual, nl_params):
                # harness side: a fixed number of Newton iterations, so that the stopping rule does not depend on
                # the (unit dependent) size of residuals and increments
                if np.any(np.isnan(nonlinear_increment)):
                    return False, True
                self.nonlinear_solver_statistics.log_error(float(np.linalg.norm(nonlinear_increment)), float("nan"))
                return self.nonlinear_solver_statistics.num_iteration >= self.params["c43_newton"], False

            def solve_linear_system(self):
                # harness side: record how well the library's sparse solver solved the system it was given
                x = super().solve_linear_system()
                A, b = self.linear_system
                nb = float(np.linalg.norm(b))
                r = float(np.linalg.norm(A @ x - b)) / nb if nb > 0 else 0.0
                self.c43_worst_residual = max(getattr(self, "c43_worst_residual", 0.0), r)
                return x

        _MODEL["cls"] = FlowModel
        _MODEL["pp"] = pp
    return _MODEL["cls"], _MODEL["pp"]


def _run_flow(s, units_kw, folder):

    cls, pp = _model_class()
    U = pp.Units(**units_kw)
    solid_vals = {"name": "rock", "permeability": s["permeability"], "normal_permeability": s["normal_permeability"],
                  "residual_aperture": s["aperture"], "porosity": 0.2}
    fluid_vals = {"name": "fluid", "density": 1000.0, "viscosity": s["viscosity"],
                  "compressibility": s["compressibility"]}
    params = {
        "times_to_export": [],
        "folder_name": str(folder),
        "fracture_indices": list(s["fracs"]),
        "cartesian": True,
        "meshing_arguments": {"cell_size": U.convert_units(1.0 / s["n"], "m")},
        "material_constants": {
            "solid": pp.SolidConstants(**solid_vals),
            "fluid": pp.FluidComponent(**fluid_vals),
        },
        "reference_variable_values": pp.ReferenceVariableValues(pressure=s["p_ref"]),
        "units": U,
        "linear_solver": s.get("solver", "scipy_sparse"),
        "time_manager": pp.TimeManager(schedule=[0.0, s["dt"] * s["steps"]], dt_init=s["dt"], constant_dt=True),
        "c43_dp": s["dp"],
        "c43_newton": s["newton"],
    }
    model = cls(params)
    pp.run_time_dependent_model(model, {"nl_convergence_tol": np.inf, "nl_convergence_tol_res": np.inf,
                                        "max_iterations": 10, "progressbars": False})
    p = model.equation_system.get_variable_values(variables=[model.pressure_variable], time_step_index=0)
    q = model.equation_system.get_variable_values(variables=[model.interface_darcy_flux_variable], time_step_index=0)
    cells = model.mdg.num_subdomain_cells()
    return (model.units.convert_units(p, "Pa", to_si=True), model.units.convert_units(q, "Pa * m^2 * s^-1", to_si=True),
            cells, getattr(model, "c43_worst_residual", 0.0))


def warmup():
    """Run one tiny flow model so that the numba kernels used by the discretisations are compiled (and cached)
    before the clock of the generate phase starts."""
    spec = {"kind": "sim", "m": 10.0, "kg": 0.1, "fracs": [0, 1], "n": 2, "newton": 1, "steps": 1, "dt": 1.0, "dp": 1e3,
            "p_ref": 0.0, "compressibility": 1e-8, "viscosity": 1e-3, "permeability": 1e-2, "normal_permeability": 1.0,
            "aperture": 0.1}
    try:
        _check_sim(spec)
    except Exception:  # noqa: BLE001 - a failure here is left for the checks to report
        pass


def _check_sim(s):
    base = os.environ.get("VERIF_SCRATCH")
    own = None
    if base:
        folder = os.path.join(base, "c43-viz")
    else:
        own = ROOT / ".scratch" / f"c43-replay-{os.getpid()}"
        own.mkdir(parents=True, exist_ok=True)
        folder = str(own / "viz")
    try:
        p0, q0, cells0, res0 = _run_flow(s, {}, folder)
        kw = {"m": s["m"], "kg": s["kg"]}
        p1, q1, cells1, res1 = _run_flow(s, kw, folder)
    finally:
        if own is not None:
            import shutil

            shutil.rmtree(own, ignore_errors=True)
            try:
                (ROOT / ".scratch").rmdir()
            except OSError:
                pass
    if max(res0, res1) > 1e-9:
        # the sparse direct solver did not solve one of the linear systems accurately (ill-conditioned input):
        # nothing can be concluded about the units from this pair; counted, not a pass of the "sim" class
        return {"labels": ["sim-discarded-inaccurate-linear-solve"], "nontrivial": False}
    labels = ["sim", f"sim-fracs{len(s['fracs'])}", f"sim-newton{s['newton']}",
              "sim-linear" if s["compressibility"] == 0.0 else "sim-compressible"]
    require(cells0 == cells1 and p0.shape == p1.shape and q0.shape == q1.shape, "sim-grid",
            f"grids differ: {cells0} vs {cells1} cells")
    require(np.all(np.isfinite(p0)) and np.all(np.isfinite(p1)), "sim-finite", "non-finite pressure")
    # scale: the pressure perturbation (the boundary pressure exceeds the reference pressure by dp), plus a rounding
    # allowance proportional to the absolute pressure level
    ps = float(np.max(np.abs(p0 - s["p_ref"])))
    require(ps > 0.0, "sim-trivial", "reference run: pressure equals the reference pressure everywhere")
    require_close(p1, p0, "sim-pressure", rtol=1e-7, atol=1e-12 * float(np.max(np.abs(p0))), scale=ps,
                  what=f"pressure in SI, units m={s['m']}, kg={s['kg']} vs SI run")
    if q0.size:
        qs = float(np.max(np.abs(q0)))
        # the interface flux is a conductance times a small difference of large pressures, so its rounding error is
        # amplified relative to its own size (observed <= 2e-9 on the unchanged tree); the repository's own comparison uses 1e-5
        require_close(q1, q0, "sim-interface-flux", rtol=1e-6, atol=0.0, scale=max(qs, 1e-300),
                      what=f"interface Darcy flux in SI, units m={s['m']}, kg={s['kg']} vs SI run")
    return {"labels": labels, "nontrivial": True}
