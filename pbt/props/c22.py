"""C22 Subgrid extraction and partitioning preserve the parent grid.

Spec: {"fn": "extract"|"structured"|"coordinates"|"partition"|"overlap"|"connected",
       "grid": <grid spec> | "frac": <frac spec>, ...function arguments...}."""
from __future__ import annotations

import numpy as np
from hypothesis import strategies as st

from ..core import require, require_close, require_equal
from ..gen.grids import build_grid, grid_meta, grid_spec
from ..gen.grids_extra import build_fractured, cells_of, dense_incidence, faces_of_cells, frac_spec, nodes_of_faces

ID = "C22"
RULE = (
    "Hypothesis draws a function and its arguments. extract: a grid of any family of C19 (dims 1-3, perturbed / "
    "affine / embedded / mixed polygons / extruded polyhedra) or the host grid of a fractured Cartesian md-grid (split "
    "faces), and a random cell subset (connected or not) passed as sorted / unsorted indices, with sort=False, or as a "
    "boolean mask; oracle: face map = exactly the faces of the chosen cells, node map = exactly their nodes, "
    "parent_cell_ind = the cells, copied and *recomputed* geometry (compute_geometry on the subgrid) = the parent's "
    "volumes / cell centres / face centres / face areas / nodes at the maps (rtol 1e-9), normals equal up to sign with "
    "sign*normal (the outward normal) equal per incidence, incidence and face-node patterns = the parent's submatrices. "
    "structured / partition: Cartesian and tensor grids of dims 1-3 with up to 7 cells per direction, target counts "
    "1..2*cells or explicit coarse dimensions; coordinates: all families incl. embedded, with / without the "
    "connectivity check (the documented ValueError is an accepted outcome). Oracle: one integer-valued non-negative "
    "entry per cell; structured: all entries < prod(coarse dims) (= parts created); with the connectivity check "
    "every part is face-connected (independent BFS). overlap: cell subset, 1-3 layers, node / face criterion; "
    "oracle: sorted, grows monotonically with the layer count, contains every neighbour of the previous layer and "
    "equals the breadth-first closure computed from the raw incidence arrays. connected: grid_is_connected on a "
    "subset / all cells agrees with BFS components (flag and component sizes). "
    "Every call of a partitioner / overlap / connectivity query must leave the parent grid object bit-for-bit unchanged "
    "(nodes, centres, normals, areas, volumes, incidence arrays, tags). seq (23 %): histories on ONE grid object - "
    "partition (coordinates / wrapper / structured / overlap / connectivity) -> extract_subgrid with the full oracle -> "
    "partition again -> extract again - mostly on 1-d / 2-d grids embedded in 3-d by a rigid motion. Non-trivial = subset / partition of a "
    "grid with >= 4 cells and (for extract) at least 2 chosen cells; distinct = hash of spec."
)
BUDGET = {"quick": {"cases": 4500, "seconds": 40}, "thorough": {"cases": 200000, "seconds": 1200}}
TECHNIQUE = "property-based testing (Hypothesis): differential against set algebra / BFS on the raw incidence, and parent-vs-child geometry"
LEVEL_TEXT = ("Exploration: thousands of generated (grid, cell subset / partition count / overlap depth) cases per run "
              "over all grid families; extracted subgrids are re-measured and compared entity by entity with the parent "
              "through the returned index maps; partition vectors, overlap layers and connectivity are compared with "
              "independent breadth-first computations.")
LEVEL_NOTE = ("Grids of at most a few hundred cells. extract_subgrid(faces=True) (lower-dimensional grid from faces) is "
              "not covered. partition_metis is not covered (pymetis is not installed). The number of parts is only "
              "bounded for partition_structured (docstrings say 'close to' the target for the other partitioners). "
              "Finds violations, does not prove absence.")
DESIGN_REF = "DESIGN.md section 4, C22"
ASSUMPTIONS = ["cell subsets are non-empty and without repetition", "overlap depth >= 1",
               "coarse dimensions given explicitly do not exceed the fine ones"]
FNS = ["extract", "extract", "extract", "structured", "structured", "coordinates", "partition", "overlap", "overlap",
       "connected", "seq", "seq", "seq"]
REQUIRED = {"seq": 0.1, "partition-then-extract": 0.1, "seq-coordinates": 0.05, "seq-coordinates-embedded": 0.015,
            "extract": 0.1, "structured": 0.1, "coordinates": 0.05, "partition": 0.05, "overlap": 0.1,
            "connected": 0.05, "dim1": 0.1, "dim2": 0.15, "dim3": 0.15, "subset-disconnected": 0.05,
            "subset-unsorted": 0.015, "subset-mask": 0.015, "overlap-node": 0.03, "overlap-face": 0.03,
            "structured-coarse-dims": 0.02, "structured-num-part": 0.02, "embedded": 0.1}


@st.composite
def _spec(draw, tier):
    fn = draw(st.sampled_from(FNS))
    s = {"fn": fn}
    gm = tier == "thorough"
    raw = st.lists(st.integers(0, 4000), min_size=1, max_size=14)
    if fn in ("structured", "partition") and (fn == "structured" or draw(st.booleans())):
        g = draw(grid_spec(kinds=("cart", "tensor"), max_n=7, max_n3=5, perturb=False, rigid=False, affine=False))
        s["grid"] = g
        ncell = int(np.prod(g["n"]))
        if fn == "structured" and draw(st.booleans()):
            s["coarse_dims"] = [draw(st.integers(1, k)) for k in g["n"]]
        else:
            s["num"] = draw(st.integers(1, 2 * ncell))
    elif fn in ("coordinates", "partition"):
        s["grid"] = draw(grid_spec(gmsh=gm))
        s["num"] = draw(st.integers(1, 40))
        s["check_conn"] = draw(st.booleans())
    elif fn == "extract":
        if draw(st.integers(0, 4)) == 0:
            s["frac"] = draw(frac_spec())
        else:
            s["grid"] = draw(grid_spec(gmsh=gm))
        s["cells"] = draw(raw)
        s["mode"] = draw(st.sampled_from(["sorted", "unsorted", "nosort", "mask"]))
        s["block"] = draw(st.booleans())  # contiguous index block (mostly connected) instead of scattered cells
    elif fn == "overlap":
        s["grid"] = draw(grid_spec(gmsh=gm))
        s["cells"] = draw(raw)
        s["layers"] = draw(st.integers(1, 3))
        s["criterion"] = draw(st.sampled_from(["node", "face"]))
    elif fn == "seq":
        # histories on one grid object; low-dimensional grids embedded in 3-d are the interesting class
        s["grid"] = draw(grid_spec(dims=(1, 2, 2, 3), gmsh=gm))
        big = st.integers(0, 4000)
        P = st.sampled_from(["coordinates", "coordinates", "coordinates", "partition", "structured", "overlap", "connected"])
        steps = []
        for _ in range(draw(st.integers(1, 2))):
            steps.append([draw(P), draw(big), draw(big)])
            steps.append(["extract", draw(big), draw(big)])
        s["steps"] = steps
    else:
        s["grid"] = draw(grid_spec(gmsh=gm))
        s["cells"] = draw(st.one_of(st.none(), raw))
        s["block"] = draw(st.booleans())
    return s


def strategy(tier):
    return _spec(tier)


def warmup():
    try:  # only meant to compile / load kernels; failures are reported by the search itself
        for kind, dim, n in (("tet", 3, [1, 1, 1]), ("tri", 2, [2, 2]), ("cart", 1, [3]), ("cart", 3, [2, 2, 2])):
            gs = {"kind": kind, "dim": dim, "n": n, "phys": [1.0] * dim, "pamp": 0.0, "pseed": 0, "affine": None, "rigid": None}
            check({"fn": "extract", "grid": gs, "cells": [0, 1], "mode": "sorted", "block": False})
            check({"fn": "coordinates", "grid": gs, "num": 2, "check_conn": False})
        check({"fn": "extract", "frac": {"dim": 2, "nx": [2, 2], "phys": [2.0, 2.0],
                                         "fracs": [{"axis": 0, "pos": 1, "lo": [0], "hi": [2]}]},
               "cells": [0, 3], "mode": "sorted", "block": False})
    except Exception:  # noqa: BLE001
        pass


# ------------------------------------------------------------------------- known findings (predicates on the spec)
def _structured_args(s):
    """(fine dims, coarse dims) a structured partition of this spec works with, or None."""
    if s["fn"] not in ("structured", "partition") or "grid" not in s or s["grid"]["kind"] not in ("cart", "tensor"):
        return None
    fine = np.array(s["grid"]["n"], dtype=int)
    if "coarse_dims" in s:
        return fine, np.array(s["coarse_dims"], dtype=int)
    import porepy as pp

    return fine, pp.partition.determine_coarse_dimensions(s["num"], fine)


def _known_1d(s):
    return _structured_args(s) is not None and s["grid"]["dim"] == 1


def _known_extra_blocks(s):
    a = _structured_args(s)
    if a is None:
        return False
    fine, coarse = a
    per = np.floor(fine / coarse)
    blocks = np.ceil(fine / per)  # number of increments np.arange(0, fine, per) creates
    return bool(np.any(blocks > coarse + 1))


def _known_dead_connectivity_check(s):
    """partition_coordinates(check_connectivity=True) whose result (computed without the check) has a part that
    is not face-connected: the documented ValueError is never raised."""
    if s["fn"] != "coordinates" or not s["check_conn"]:
        return False
    import warnings

    import porepy as pp

    try:
        with warnings.catch_warnings():
            warnings.simplefilter("ignore")
            g = build_grid(s["grid"])
            p = pp.partition.partition_coordinates(g, s["num"], check_connectivity=False)
        adj = _adjacency(g, "face")
        return any(len(_components(np.flatnonzero(p == q).tolist(), adj)) > 1 for q in np.unique(p))
    except Exception:  # noqa: BLE001 - let the check itself report whatever goes wrong
        return False


KNOWN = {
    "C22-partition-structured-1d-unboundlocal": _known_1d,
    "C22-partition-structured-extra-blocks": _known_extra_blocks,
    "C22-overlap-single-cell-result-axiserror": lambda s: s["fn"] == "overlap" and _one_cell(s["grid"]),
}


def _one_cell(gs):
    """Number of cells of the generated grid is one (pure function of the spec)."""
    k = gs["kind"]
    if k in ("cart", "tensor"):
        return int(np.prod(gs["n"])) == 1
    if k in ("poly", "polyx"):
        from ..gen.grids import _poly_grid

        return len(_poly_grid(gs)[1]) * (len(gs["layers"]) if k == "polyx" else 1) == 1
    return False


# ------------------------------------------------------------------------- oracles
def _adjacency(g, criterion):
    """cell -> set of neighbouring cells (sharing a face / a node), from the raw arrays."""
    fc = faces_of_cells(g)
    if criterion == "face":
        owner = {}
        for c, fs in enumerate(fc):
            for f in fs:
                owner.setdefault(f, []).append(c)
        groups = owner.values()
    else:
        nf = nodes_of_faces(g)
        owner = {}
        for c, fs in enumerate(fc):
            for f in fs:
                for n in nf[f]:
                    owner.setdefault(n, set()).add(c)
        groups = owner.values()
    adj = [set() for _ in range(g.num_cells)]
    for grp in groups:
        for a in grp:
            adj[a].update(grp)
    for c in range(g.num_cells):
        adj[c].discard(c)
    return adj


def _components(cells, adj):
    cells = list(cells)
    inside = set(cells)
    seen, comps = set(), []
    for c in cells:
        if c in seen:
            continue
        comp, stack = [], [c]
        seen.add(c)
        while stack:
            x = stack.pop()
            comp.append(x)
            for y in adj[x]:
                if y in inside and y not in seen:
                    seen.add(y)
                    stack.append(y)
        comps.append(sorted(comp))
    return comps


def _subset(s, nc):
    raw = s["cells"]
    if s.get("block"):
        start, length = raw[0] % nc, 1 + (len(raw) * 3) % max(1, min(nc, 12))
        return [(start + k) % nc for k in range(min(length, nc))]
    return cells_of(raw, nc)


def _grid_of(s):
    if "frac" in s:
        g = build_fractured(s["frac"]).subdomains()[0]
        return g, [f"dim{g.dim}", "split-host"]
    return build_grid(s["grid"]), list(grid_meta(s["grid"])["labels"])


def _check_partition_vector(p, g, tag, what):
    p = np.asarray(p)
    require(p.shape == (g.num_cells,), tag + "-shape", f"{what}: shape {p.shape} for {g.num_cells} cells")
    require(np.all(np.isfinite(p)) and np.all(p == np.round(p)), tag + "-integer", f"{what}: non-integer entries")
    require(np.all(p >= 0), tag + "-negative", f"{what}: negative part index")
    return p.astype(int)


_GEOM = ("nodes", "cell_volumes", "cell_centers", "face_centers", "face_areas", "face_normals")


def _snapshot(g):
    snap = {k: np.array(getattr(g, k), copy=True) for k in _GEOM}
    # face_nodes: raw storage (the order of a face's nodes is documented as meaningful); cell_faces: the matrix
    # itself (scipy sorts the indices of a column in place in abs(), used by Grid.cell_nodes; that order has no meaning)
    m = g.face_nodes
    snap["face_nodes"] = (m.format, m.shape, m.indptr.copy(), m.indices.copy(), m.data.copy())
    snap["cell_faces"] = (g.cell_faces.format, dense_incidence(g))
    snap["sizes"] = (g.dim, g.num_cells, g.num_faces, g.num_nodes)
    snap["tags"] = {k: np.array(v, copy=True) for k, v in g.tags.items()}
    return snap


def _require_unchanged(g, snap, tag, what):
    """The parent grid object is exactly as it was: a query / partition call has no business changing it."""
    require((g.dim, g.num_cells, g.num_faces, g.num_nodes) == snap["sizes"], tag, f"{what}: sizes of the parent changed")
    for k in _GEOM:
        require_equal(getattr(g, k), snap[k], tag, f"{what}: parent {k} changed")
    m = g.face_nodes
    fmt, shape, indptr, indices, data = snap["face_nodes"]
    require(m.format == fmt and m.shape == shape and np.array_equal(m.indptr, indptr)
            and np.array_equal(m.indices, indices) and np.array_equal(m.data, data), tag,
            f"{what}: parent face_nodes changed")
    require(g.cell_faces.format == snap["cell_faces"][0] and g.cell_faces.shape == snap["cell_faces"][1].shape
            and np.array_equal(dense_incidence(g), snap["cell_faces"][1]), tag, f"{what}: parent cell_faces changed")
    require(set(g.tags) == set(snap["tags"]) and all(np.array_equal(g.tags[k], v) for k, v in snap["tags"].items()), tag,
            f"{what}: parent tags changed")


def _extract_oracle(part, g, arg, kw, exp_cells):
    """extract_subgrid(g, arg, **kw) and the full parent-vs-child oracle; exp_cells = the parent cells in child order."""
    ref = {k: getattr(g, k).copy() for k in ("nodes", "cell_volumes", "cell_centers", "face_centers", "face_areas",
                                             "face_normals")}
    Dg = dense_incidence(g)
    h, fmap, nmap = part.extract_subgrid(g, arg, **kw)
    ec = np.array(exp_cells, dtype=int)
    fcs, nfs = faces_of_cells(g), nodes_of_faces(g)
    exp_f = sorted({f for c in exp_cells for f in fcs[c]})
    exp_n = sorted({n for f in exp_f for n in nfs[f]})
    require_equal(fmap, np.array(exp_f), "extract-face-map", "face map vs faces of the chosen cells")
    require_equal(nmap, np.array(exp_n), "extract-node-map", "node map vs nodes of the chosen cells")
    require((h.num_cells, h.num_faces, h.num_nodes) == (len(ec), len(exp_f), len(exp_n)), "extract-sizes",
            f"subgrid sizes {(h.num_cells, h.num_faces, h.num_nodes)}")
    require(h.dim == g.dim, "extract-dim", "dimension changed")
    require_equal(h.parent_cell_ind, ec, "extract-parent-cells", "parent_cell_ind")
    require_equal(h.nodes, ref["nodes"][:, nmap], "extract-nodes", "node coordinates")
    # the parent is untouched
    for k, v in ref.items():
        require_equal(getattr(g, k), v, "extract-parent-mutated", f"parent {k} changed")
    # topology: submatrices of the parent
    Dh = dense_incidence(h)
    require_equal(np.abs(Dh), np.abs(Dg[np.ix_(fmap, ec)]), "extract-incidence", "cell-face pattern vs parent submatrix")
    fn_g = (g.face_nodes.toarray() != 0)
    require_equal(h.face_nodes.toarray() != 0, fn_g[np.ix_(nmap, fmap)], "extract-face-nodes",
                  "face-node pattern vs parent submatrix")
    # geometry copied by the extraction, and recomputed from scratch
    sc = float(np.abs(ref["nodes"]).max()) + 1.0
    for stage in ("copied", "recomputed"):
        if stage == "recomputed":
            h.compute_geometry()
        T = f"extract-{stage}-"
        require_close(h.cell_volumes, ref["cell_volumes"][ec], T + "volumes", rtol=1e-9, what="cell volumes")
        require_close(h.cell_centers, ref["cell_centers"][:, ec], T + "cell-centers", rtol=1e-9, scale=sc,
                      what="cell centres")
        require_close(h.face_centers, ref["face_centers"][:, fmap], T + "face-centers", rtol=1e-9, scale=sc,
                      what="face centres")
        require_close(h.face_areas, ref["face_areas"][fmap], T + "face-areas", rtol=1e-9, what="face areas")
        nh, ng = h.face_normals, ref["face_normals"][:, fmap]
        nsc = float(np.abs(ng).max())
        same = np.all(np.abs(nh - ng) <= 1e-9 * nsc, axis=0)
        flip = np.all(np.abs(nh + ng) <= 1e-9 * nsc, axis=0)
        require(np.all(same | flip), T + "normals", "face normals differ from the parent's by more than a sign")
        fi, ci = np.nonzero(Dh)
        out_h = nh[:, fi] * Dh[fi, ci]
        out_g = ng[:, fi] * Dg[fmap[fi], ec[ci]]
        require_close(out_h, out_g, T + "outward-normals", rtol=1e-9, scale=nsc,
                      what="sign*normal per (face, cell) incidence")
    return h


# ------------------------------------------------------------------------- check
def check(s):
    import porepy as pp

    part = pp.partition
    fn = s["fn"]
    g, labels = _grid_of(s)
    labels = [fn] + labels
    nc = g.num_cells
    nontrivial = nc >= 4
    snap = _snapshot(g)

    if fn == "seq":
        nontrivial = _check_sequence(part, s, g, snap, labels) and nontrivial

    elif fn == "extract":
        cells = _subset(s, nc)
        mode = s["mode"]
        srt = sorted(cells)
        adj = _adjacency(g, "face")
        labels.append("subset-connected" if len(_components(cells, adj)) == 1 else "subset-disconnected")
        if mode == "sorted":
            arg, kw, exp_cells = np.array(srt, dtype=int), {}, srt
        elif mode == "unsorted":
            arg, kw, exp_cells = np.array(cells, dtype=int), {}, srt
        elif mode == "nosort":
            arg, kw, exp_cells = np.array(cells, dtype=int), {"sort": False}, cells
        else:
            arg = np.zeros(nc, dtype=bool)
            arg[srt] = True
            kw, exp_cells = {}, srt
        if mode == "mask":
            labels.append("subset-mask")
        elif cells != srt:
            labels.append("subset-unsorted")
        _extract_oracle(part, g, arg, kw, exp_cells)
        nontrivial = nontrivial and len(cells) >= 2

    elif fn in ("structured", "coordinates", "partition"):
        structured = fn == "structured" or (fn == "partition" and s["grid"]["kind"] in ("cart", "tensor"))
        if fn == "structured":
            if "coarse_dims" in s:
                cd = np.array(s["coarse_dims"], dtype=int)
                p = part.partition_structured(g, coarse_dims=cd.copy())
                labels.append("structured-coarse-dims")
            else:
                cd = part.determine_coarse_dimensions(s["num"], np.array(s["grid"]["n"], dtype=int))
                p = part.partition_structured(g, num_part=s["num"])
                labels.append("structured-num-part")
        elif fn == "partition":
            try:
                p = part.partition(g, s["num"])
            except ValueError as e:
                if not structured and "unconnected" in str(e):  # documented outcome of partition_coordinates
                    return {"labels": labels + ["coordinates-unconnected-error"], "nontrivial": False}
                raise
            labels.append("partition-structured" if structured else "partition-coordinates")
            if structured:
                cd = part.determine_coarse_dimensions(s["num"], np.array(s["grid"]["n"], dtype=int))
        else:
            try:
                p = part.partition_coordinates(g, s["num"], check_connectivity=s["check_conn"])
            except ValueError as e:
                if s["check_conn"] and "unconnected" in str(e):
                    return {"labels": labels + ["coordinates-unconnected-error"], "nontrivial": False}
                raise
            labels.append("coordinates-checked" if s["check_conn"] else "coordinates-unchecked")
        p = _check_partition_vector(p, g, "partition", fn)
        if structured:
            nparts = int(np.prod(cd))
            require(nparts <= nc, "partition-range", f"{nparts} parts for {nc} cells")
            require(int(p.max()) < nparts, "partition-range",
                    f"{fn}: part index {int(p.max())} with coarse dimensions {cd.tolist()} (= {nparts} parts)")
        # NOTE: connectivity of the parts under check_connectivity=True is documented by the function but is
        # not part of property C22 (one part per cell, within range), so it is deliberately not asserted.
        if len(np.unique(p)) >= 2:
            labels.append("parts>=2")
        nontrivial = nontrivial and len(np.unique(p)) >= 2

    elif fn == "overlap":
        cells = sorted(cells_of(s["cells"], nc))
        crit = s["criterion"]
        labels.append("overlap-" + crit)
        adj = _adjacency(g, crit)
        prev = set(cells)
        prev_arr = np.array(cells, dtype=int)
        for layer in range(1, s["layers"] + 1):
            out = part.overlap(g, np.array(cells, dtype=int), layer, criterion=crit)
            out = np.asarray(out)
            require(out.ndim == 1 and np.all(np.diff(out) > 0), "overlap-sorted", f"layer {layer}: not sorted / unique")
            require(np.all((out >= 0) & (out < nc)), "overlap-range", "cell index out of range")
            cur = set(out.tolist())
            require(prev <= cur, "overlap-monotone", f"layer {layer} lost cells {sorted(prev - cur)[:5]}")
            nbrs = set()
            for c in prev:
                nbrs |= adj[c]
            require(nbrs <= cur, "overlap-neighbours", f"layer {layer} misses neighbours {sorted(nbrs - cur)[:5]}")
            require(cur == prev | nbrs, "overlap-exact", f"layer {layer} contains cells that are no neighbours: "
                                                         f"{sorted(cur - prev - nbrs)[:5]}")
            prev = cur
        if len(prev) < nc:
            labels.append("overlap-partial")
        nontrivial = nontrivial and len(cells) < nc
        del prev_arr

    else:  # connected
        adj = _adjacency(g, "face")
        if s["cells"] is None:
            cells = list(range(nc))
            ok, comps = part.grid_is_connected(g)
            labels.append("connected-all")
        else:
            cells = sorted(_subset(s, nc))
            ok, comps = part.grid_is_connected(g, np.array(cells, dtype=int))
            labels.append("connected-subset")
        exp = _components(cells, adj)
        require(bool(ok) == (len(exp) == 1), "connected-flag", f"grid_is_connected says {ok}, BFS finds {len(exp)} components")
        require(sorted(len(c) for c in comps) == sorted(len(c) for c in exp), "connected-components",
                f"component sizes {sorted(len(c) for c in comps)} vs BFS {sorted(len(c) for c in exp)}")
        if s["cells"] is None:
            require(sorted(sorted(int(x) for x in c) for c in comps) == sorted(exp), "connected-components",
                    "components differ from BFS components")
        labels.append("subset-connected" if len(exp) == 1 else "subset-disconnected")
        nontrivial = nontrivial and len(cells) >= 2
    _require_unchanged(g, snap, "parent-mutated", fn)
    return {"labels": sorted(set(labels)), "nontrivial": bool(nontrivial)}


def _check_sequence(part, s, g, snap, labels):
    """partition -> extract -> partition -> extract ... on ONE grid object; after every call the parent must be
    exactly as before, and every extraction must satisfy the full parent-vs-child oracle."""
    nc = g.num_cells
    tensor = "grid" in s and s["grid"]["kind"] in ("cart", "tensor")
    partitioned = False
    for k, (kind, a, b) in enumerate(s["steps"]):
        what = f"step {k} ({kind})"
        if kind == "extract":
            cells = sorted(cells_of([a + 7 * i * (b % 5 + 1) for i in range(1 + b % 6)], nc))
            _extract_oracle(part, g, np.array(cells, dtype=int), {}, cells)
            if partitioned:
                labels.append("partition-then-extract")
        elif kind == "overlap":
            cells = sorted(cells_of([a, a + b], nc))
            out = part.overlap(g, np.array(cells, dtype=int), 1 + b % 2, criterion=("node", "face")[a % 2])
            require(set(cells) <= set(np.asarray(out).tolist()), "overlap-monotone", f"{what}: lost cells")
            partitioned = True
        elif kind == "connected":
            part.grid_is_connected(g, np.array(sorted(cells_of([a, a + 1, b], nc)), dtype=int))
            partitioned = True
        else:
            num = 1 + a % 12
            try:
                if kind == "structured" and tensor:
                    p = part.partition_structured(g, num_part=num)
                elif kind == "partition":
                    p = part.partition(g, num)
                else:
                    p = part.partition_coordinates(g, num, check_connectivity=bool(b % 2))
                    labels.append("seq-coordinates")
                    if g.dim < 3 and "embedded" in labels:
                        labels.append("seq-coordinates-embedded")
                _check_partition_vector(p, g, "partition", what)
            except ValueError as e:
                if "unconnected" not in str(e):  # documented outcome of partition_coordinates
                    raise
            partitioned = True
        _require_unchanged(g, snap, "parent-mutated", what)
    return True
