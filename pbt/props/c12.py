"""C12 TPFA is symmetric, conservative, and exact on K-orthogonal grids.

Spec: {"mode": "general"|"korth", "grid": grid spec, "K": tensor spec, "bc": bc spec, "field": field spec}
(see pbt/gen/fv.py).  mode "korth": unperturbed, unrotated Cartesian / tensor grid and diagonal K."""
from __future__ import annotations

import numpy as np
import scipy.sparse as sps
from hypothesis import strategies as st

from ..core import require, require_close
from ..gen import fv
from ..gen.grids import build_grid, grid_meta, grid_spec
from .c11 import bc_label, check_linear_exactness

ID = "C12"
RULE = (
    "Hypothesis draws (general class) any 1-3-d grid of the shared generator (Cartesian, tensor, triangles, tetrahedra, "
    "mixed polygons / extruded polyhedra, perturbed, affinely mapped, embedded) with a full / diagonal / isotropic SPD "
    "tensor times an optional cell-wise scalar factor in [1/h,h], h<=20, or (K-orthogonal class) an axis-aligned "
    "Cartesian / tensor grid with diagonal K (optionally with the same heterogeneity); plus a per-face "
    "Dirichlet/Neumann assignment and a linear field. Oracle, all cases: div*flux symmetric (1e-12 relative); every "
    "interior face row of flux has non-zeros only at its two cells and they sum to 0, boundary rows have at most the "
    "adjacent cell, bound_flux is diagonal and zero on interior faces, Dirichlet rows balance (flux[f,c] = -bound_flux[f,f]); "
    "constant p with Dirichlet data c and Neumann data 0 gives zero flux. K-orthogonal class: diag(div*flux) > 0 for every "
    "cell with an interior or Dirichlet face, off-diagonal <= 0; flux and bound_flux equal those of pp.Mpfa (1e-10 "
    "relative; dim >= 2); with constant K the exact flux -(K a).n_f for p = c + a.x on every face (1e-9). "
    "Periodic class (a quarter of the axis-aligned lattices of dim >= 2): one or two pairs of opposite sides joined with "
    "Grid.set_periodic_map before the boundary conditions are made; the structural claims, the M-matrix pattern and "
    "the agreement with Mpfa are asserted as for interior faces, plus: the outward fluxes of a periodic pair cancel; "
    "linear exactness is not asserted there. "
    "Reuse class (a third of the cases): one Tpfa object discretises, then the same grid / tensor / bc objects are "
    "edited in place (per-axis scaling or, for axis-aligned lattices, random respacing of the nodes followed by "
    "compute_geometry(); tensor values overwritten; boundary types overwritten) and the same object discretises again, "
    "into the same data dictionary in half of the cases; every assertion is made on the second result against the "
    "inputs then in force (fresh pp.Mpfa as reference). "
    "Non-trivial = heterogeneous K or Dirichlet and Neumann faces both present; distinct = hash of spec."
)
BUDGET = {"quick": {"cases": 800, "seconds": 40}, "thorough": {"cases": 30000, "seconds": 1200}}
TECHNIQUE = ("property-based testing (Hypothesis): algebraic invariants, analytic oracle (linear fields) and differential "
             "comparison with MPFA on generated grids")
LEVEL_TEXT = ("Exploration: hundreds (quick) to tens of thousands (thorough) of generated grids, tensors and boundary "
              "mixes; structural identities of the TPFA matrices are checked on all of them, and on the K-orthogonal "
              "subset the M-matrix sign pattern, agreement with the independently implemented MPFA and exactness for "
              "linear fields.")
LEVEL_NOTE = ("The bound_pressure_* matrices are not part of the claims that are compared (TPFA's differ from MPFA's by "
              "design). Grids up to ~100 cells; tensor condition number <= 100, heterogeneity contrast <= 400. "
              "Finds violations, does not prove absence.")
DESIGN_REF = "DESIGN.md section 4, C12"
ASSUMPTIONS = [
    "'single-valued face flux' is read as: the flux of an interior face depends only on the pressure difference of its two cells (row = +t, -t)",
    "'positive diagonal' is demanded for cells that have at least one interior or Dirichlet face (a cell whose faces are all Neumann has a zero row)",
    "K-orthogonal class = axis-aligned CartGrid / TensorGrid with diagonal tensor (scalar cell-wise heterogeneity allowed)",
    "MPFA agreement is checked for dim >= 2 only (in 1-d pp.Mpfa delegates to pp.Tpfa)",
]
REQUIRED = {"periodic": 0.02, "periodic-heterogeneous": 0.012, "scaled-small": 0.08, "scaled-large": 0.05, "graded": 0.02, "K-tiny": 0.1, "K-huge": 0.03, "reuse": 0.15, "reuse-moved-geometry": 0.08, "reuse-changed-tensor": 0.05, "reuse-changed-bc": 0.05,
            "reuse-same-data": 0.05, "general": 0.3, "korth": 0.3, "dim1": 0.02, "dim2": 0.2, "dim3": 0.2, "heterogeneous": 0.2, "bc-mixed": 0.3,
            "mpfa-compared": 0.2, "linear-exact": 0.1, "kind-poly": 0.01, "kind-tri": 0.015, "kind-tet": 0.015}


@st.composite
def _spec(draw, tier):
    mode = draw(st.sampled_from(["general", "korth"]))
    if mode == "general":
        # the grid family is drawn first so that every family keeps a stable share of the cases
        fam = draw(st.sampled_from(["cart", "tensor", "tri", "tet", "poly", "polyx"] + (["gmsh"] if tier == "thorough" else [])))
        dims = {"cart": (1, 2, 3), "tensor": (1, 2, 3), "tri": (2,), "poly": (2,), "tet": (3,), "polyx": (3,), "gmsh": (2, 3)}[fam]
        grid = draw(grid_spec(dims=dims, kinds=(fam,), max_n3=2, max_n=4, gmsh=(fam == "gmsh")))
        K = draw(fv.spd_spec(het=True, mags=True))
    else:
        grid = draw(grid_spec(dims=(1, 2, 2, 2, 3, 3, 3), kinds=("cart", "tensor"), perturb=False, rigid=False,
                              affine=False, max_n3=2, max_n=4))
        K = draw(fv.spd_spec(kinds=("diag", "diag", "iso"), het=True, mags=True))
    grid = draw(fv.with_length_scale(grid))  # unit factors 1e-6..1e4, graded tensor grids
    periodic = draw(fv.periodic_axes(grid))  # opposite sides joined by Grid.set_periodic_map
    # reuse class: one Tpfa object discretises twice, the inputs are edited in place in between (see gen/fv.py)
    reuse = None
    if draw(st.integers(0, 2)) == 0:
        kinds = ("iso", "diag", "full") if mode == "general" else ("diag", "diag", "iso")
        reuse = draw(fv.reuse_spec(grid, tensor_kinds=kinds, het=True, mags=True))
        if mode == "korth" and reuse["move"] == "scale" and draw(st.booleans()):
            reuse["move"] = "respace"
    return {"mode": mode, "grid": grid, "K": K, "bc": draw(fv.bc_spec()), "field": draw(fv.field_spec(length=grid.get("scale") or 1.0)), "reuse": reuse, "periodic": periodic}


def strategy(tier):
    return _spec(tier)


def warmup():
    fv.warmup_flow()


def _structure(g, flux, bound_flux, is_dir, pmap=None):
    """Row structure of the TPFA matrices (single-valued, conservative face fluxes)."""
    F = flux.tocsr()
    B = bound_flux.tocsr()
    require(F.shape == (g.num_faces, g.num_cells) and B.shape == (g.num_faces, g.num_faces), "shape",
            f"{F.shape}, {B.shape}")
    require(np.all(np.isfinite(F.data)) and np.all(np.isfinite(B.data)), "finite", "non-finite transmissibility")
    scale = max(float(np.abs(F.data).max()) if F.nnz else 0.0, 1e-300)
    tol = 1e-12 * scale
    nbr = abs(g.cell_faces).tocsr()  # face -> its cells
    if pmap is not None:
        # a periodic face is also connected to the cell of its partner face
        P = sps.coo_matrix((np.ones(2 * pmap.shape[1]), (np.r_[pmap[0], pmap[1]], np.r_[pmap[1], pmap[0]])),
                           shape=(g.num_faces, g.num_faces)).tocsr()
        nbr = (nbr + P @ nbr).tocsr()
    # non-zeros of flux only at the cells of the face
    outside = abs(F) - abs(F).multiply(nbr)
    require(outside.nnz == 0 or np.abs(outside.data).max() <= tol, "flux-stencil",
            "flux row has an entry at a cell that is not a neighbour of the face")
    bnd = np.zeros(g.num_faces, dtype=bool)
    bnd[g.get_all_boundary_faces()] = True
    rowsum = np.asarray(F.sum(axis=1)).ravel()
    require(np.all(np.abs(rowsum[~bnd]) <= tol), "single-valued",
            lambda: f"interior face row does not sum to zero: max {np.abs(rowsum[~bnd]).max():.3e} (scale {scale:.3e})")
    # bound_flux: diagonal, zero on interior faces
    Bd = B.diagonal()
    offd = (B - sps.diags(Bd)).tocsr()
    require(offd.nnz == 0 or np.abs(offd.data).max() <= tol, "bound-flux-diagonal", "bound_flux has off-diagonal entries")
    require(np.all(np.abs(Bd[~bnd]) <= tol), "bound-flux-interior", "bound_flux non-zero on an interior face")
    # Dirichlet rows balance: flux = t (p_c - p_b)
    require(np.all(np.abs(rowsum[is_dir] + Bd[is_dir]) <= tol), "dirichlet-balance",
            lambda: f"flux[f,c] + bound_flux[f,f] max {np.abs(rowsum[is_dir] + Bd[is_dir]).max():.3e}")
    if pmap is not None:
        # single-valued flux across a periodic pair: what leaves through one face enters through its partner
        sg = np.asarray(g.cell_faces.tocsr().sum(axis=1)).ravel()  # sign of the only cell of a side face
        D = (sps.diags(sg[pmap[0]]) @ F[pmap[0]] + sps.diags(sg[pmap[1]]) @ F[pmap[1]]).tocsr()
        require(D.nnz == 0 or np.abs(D.data).max() <= tol, "periodic-single-valued",
                lambda: f"outward fluxes of a periodic pair do not cancel: max {np.abs(D.data).max():.3e} (scale {scale:.3e})")
    return scale


def check(spec):
    g = build_grid(spec["grid"])
    meta = grid_meta(spec["grid"])
    import porepy as pp

    pmap = fv.apply_periodic(g, spec["periodic"]) if spec.get("periodic") else None
    K, Km, fac = fv.build_tensor(spec["K"], g)
    bc, is_dir = fv.build_bc(spec["bc"], g)
    ts, bs = spec["K"], spec["bc"]
    rs = spec.get("reuse")
    labels = list(meta["labels"]) + [spec["mode"]]
    if rs:
        # first discretisation, in-place edits, second discretisation with the same Tpfa object; all assertions
        # below are made on the second result with the inputs as they are then
        discr = pp.Tpfa(fv.KW)
        _, data = fv.discretize_flow(g, K, bc, "tpfa", discr=discr)
        ts, bs, rl = fv.apply_reuse(g, K, bc, ts, bs, rs)
        labels += rl
        Km = fv.tensor_matrix(ts)
        is_dir = fv.dirichlet_mask(bs, g)
        M, _ = fv.discretize_flow(g, K, bc, "tpfa", discr=discr, data=data if rs["same_data"] else None)
    else:
        M, _ = fv.discretize_flow(g, K, bc, "tpfa")
    fs = spec["field"]
    flux, bflux = M["flux"], M["bound_flux"]
    labels += ["K-" + ts["kind"], bc_label(is_dir, g)] + fv.length_labels(spec["grid"]) + fv.tensor_labels(ts)
    het = bool(ts.get("het_amp"))
    if het:
        labels.append("heterogeneous")

    if pmap is not None:
        labels.append("periodic")
        w = np.linalg.norm(g.face_centers[:, pmap[0]] - g.cell_centers[:, abs(g.cell_faces).tocsr()[pmap[0]].indices], axis=0)
        w2 = np.linalg.norm(g.face_centers[:, pmap[1]] - g.cell_centers[:, abs(g.cell_faces).tocsr()[pmap[1]].indices], axis=0)
        if het or not np.allclose(w, w2, rtol=1e-6, atol=0.0):
            labels.append("periodic-heterogeneous")  # permeability or cell size differs across the periodic pair
    scale = _structure(g, flux, bflux, is_dir, pmap)

    # symmetry of the cell-cell operator
    div = g.cell_faces.T.tocsr()
    A = (div @ flux).toarray()
    ascale = max(float(np.abs(A).max()), 1e-300)
    require_close(A, A.T, "symmetric", rtol=1e-12, atol=0.0, scale=ascale, what="div*flux vs its transpose")

    # constant pressure, matching Dirichlet data, zero Neumann data
    c = fs["c"] if abs(fs["c"]) >= 1e-3 else 1.0
    p0 = np.full(g.num_cells, c)
    b0 = np.where(is_dir, c, 0.0)
    q0 = flux @ p0 + bflux @ b0
    require_close(q0, np.zeros_like(q0), "constant-zero-flux", rtol=1e-12, atol=0.0, scale=abs(c) * scale,
                  what="flux of a constant pressure")

    if spec["mode"] == "korth":
        # M-matrix sign pattern
        bnd = np.zeros(g.num_faces, dtype=bool)
        bnd[g.get_all_boundary_faces()] = True
        active_face = (~bnd) | is_dir
        has_active = np.asarray(abs(g.cell_faces).T @ active_face.astype(float)).ravel() > 0
        d = np.diag(A)
        require(np.all(d[has_active] > 0), "positive-diagonal", lambda: f"min diagonal {d[has_active].min():.3e}")
        require(np.all(d >= -1e-12 * ascale), "diagonal-nonnegative", lambda: f"min diagonal {d.min():.3e}")
        off = A - np.diag(d)
        require(np.all(off <= 1e-12 * ascale), "offdiagonal-nonpositive", lambda: f"max off-diagonal {off.max():.3e}")

        if g.dim >= 2:
            Mm, _ = fv.discretize_flow(g, K, bc, "mpfa")
            labels.append("mpfa-compared")
            cf = fv.conditioning_factor(spec["grid"])  # > 1 only for graded grids (MPFA local systems)
            s1 = max(scale, float(abs(Mm["flux"]).max()))
            require_close(flux.toarray(), Mm["flux"].toarray(), "mpfa-flux", rtol=1e-10 * cf, atol=0.0, scale=s1,
                          what="Tpfa flux vs Mpfa flux")
            s2 = max(float(abs(bflux).max()), float(abs(Mm["bound_flux"]).max()), 1e-300)
            require_close(bflux.toarray(), Mm["bound_flux"].toarray(), "mpfa-bound-flux", rtol=1e-10 * cf, atol=0.0, scale=s2,
                          what="Tpfa bound_flux vs Mpfa bound_flux")
        if not het and pmap is None:  # (a linear field is not periodic)
            labels.append("linear-exact")
            check_linear_exactness(g, M, Km, fs, is_dir, tag="korth-")

    nontrivial = het or "bc-mixed" in labels
    return {"labels": labels, "nontrivial": bool(nontrivial)}
