"""C10 Simulation driver keeps solution state consistent across forced Newton failures.

Spec = model parameters + time-manager parameters + failure plan:
    {"nxy": [nx, ny], "fracture": bool, "src": s, "compressibility": c, "perm": k, "nstore": 1|2,
     "tm": {"schedule": [t0, t1], "dt_init", "dt_min_max", "iter_max", "iter_optimal_range",
            "iter_relax_factors", "recomp_factor", "recomp_max"},
     "max_iterations": n, "plan": [["ok"] | ["div", j] | ["never"], ...], "replay": bool,
     "guess": {"kind": "none"|"extrapolate"|"perturb"|"garbage", "when": "all"|"first-attempt", "amp": a},
     "nit": 1|2, "bc_ramp": 0|amp}
plan[k] applies to the k-th call of NewtonSolver.solve (failed attempts count); solves beyond the
plan are "ok".  A harness subclass of pp.SinglePhaseFlow (compressible fluid, constant source,
2-4 matrix cells, optional fracture) is run through pp.run_time_dependent_model; it overrides
``check_convergence`` (calls super, then replaces the answer according to the plan), optionally
writes an initial guess of its own into iterate_index=0 before ``super().before_nonlinear_loop()``
(predictor mixin: extrapolation of the two last accepted solutions, perturbation of the last one,
or an unrelated vector), optionally stores two iterates and uses a time-dependent boundary
pressure, and records
the state before / after ``super().after_nonlinear_convergence()`` and
``super().after_nonlinear_failure()``.  The record is then interpreted against a bookkeeping
model: last accepted solution, the one before, last accepted time, consecutive failures."""
from __future__ import annotations

import numpy as np
from hypothesis import strategies as st

from ..core import HarnessError, Violation, require, require_close, require_equal

ID = "C10"
RULE = (
    "Hypothesis draws a small compressible single-phase flow model (Cartesian 2x1, 3x1, 4x1 or 2x2 matrix "
    "cells on the unit square, optionally one fracture through the domain, constant source in cell 0, "
    "compressibility 0.1..1, permeability 0.05..1, zero Dirichlet pressure), a 2-point schedule with admissible "
    "adaptive TimeManager parameters (dt_init = T/1..4, dt_min = dt_init*{1,.5,.25,.125}, dt_max = dt_init*{1,2,4}), "
    "the Newton iteration limit (5..10), whether 1 or 2 time-step solutions and 1 or 2 iterates are stored, an "
    "initial-guess mixin (none | linear extrapolation of the two last accepted solutions | perturbation of the "
    "last one | unrelated vector; written to iterate[0] before super().before_nonlinear_loop() on every solve or "
    "only on first attempts), a constant or linearly ramped boundary pressure, and a failure plan of "
    "length <= 8 over the successive Newton solves (ok | diverge at iteration j | never converge). The model is "
    "run by pp.run_time_dependent_model with failure injection in check_convergence. Oracle = bookkeeping model "
    "replayed over the recorded hook calls: every solve starts (before the model writes its guess) at last accepted "
    "time + dt with iterate == stored "
    "time-step values == last accepted solution (exact); after a converged solve time_step[0] == iterate == the "
    "converged iterate (exact), time_step[1] == previous accepted solution when two are stored, time unchanged; "
    "after a failed solve iterate == time_step[0] == last accepted solution (exact, whatever guess the failed loop "
    "started from), time_step[1] unchanged, "
    "time == last accepted time (1e-12 relative); every planned failure reaches after_nonlinear_failure; "
    "ValueError exactly when consecutive failures == recomp_max or dt == dt_min; otherwise the run ends at the "
    "final time with the stored history equal to the last accepted solutions; for half of the cases the accepted "
    "solutions are also compared (rtol 1e-7) with a failure-free re-run that takes exactly the accepted steps. "
    "Non-trivial = a planned failure after >= 1 accepted step; distinct = hash of spec."
)
BUDGET = {"quick": {"cases": 200, "seconds": 45}, "thorough": {"cases": 3000, "seconds": 1100}}
TECHNIQUE = ("property-based testing (Hypothesis): fault injection into the Newton convergence check of a real "
             "time-dependent model run, hook-level state record checked against a bookkeeping model and a "
             "failure-free re-run")
LEVEL_TEXT = ("Exploration: about a hundred (quick) to a few thousand (thorough) real simulations of a small "
              "nonlinear flow model per run, each with a generated pattern of forced Newton failures (divergence "
              "at a chosen iteration, exhaustion of the iteration limit, bursts up to and beyond the "
              "recomputation budget, failure of the very first solve, of the last step); after every hook call "
              "the stored time-step values, the current iterate and the clock are compared exactly with the "
              "bookkeeping model; accepted solutions are cross-checked against a failure-free re-run. Models "
              "that start the Newton loop from their own initial guess (predictor), store two iterates or use "
              "time-dependent boundary values are part of the generated configurations.")
LEVEL_NOTE = ("One model family (compressible single-phase flow, TPFA, <= 4 matrix cells + optional fracture), "
              "constant source, constant or linearly ramped Dirichlet pressure, model-side overrides limited to "
              "initial guess / number of stored iterates and time steps / boundary values, 2-point schedules (scheduled intermediate times are C09), at most 8 "
              "planned failures. Each case is a real simulation (~0.5-1 s), so case counts are in the hundreds, "
              "not millions. Finds violations, does not prove absence.")
DESIGN_REF = "DESIGN.md section 4, C10"
ASSUMPTIONS = [
    "failure injection overrides check_convergence in a model subclass (the hook the property names); "
    "before_nonlinear_loop / after_nonlinear_convergence / after_nonlinear_failure are overridden only to record "
    "state around the call of the base implementation",
    "TimeManager arguments satisfy the documented constructor constraints; dt_init <= final - initial time",
    "sources are constant and boundary data depend on time only, so an accepted solution depends only on the "
    "previous accepted solution, the time and the step size (used by the failure-free re-run); the initial guess "
    "changes it only at the level of the Newton tolerance (1e-10 on the increment, compared with rtol 1e-7)",
    "a model may write any finite vector of the right size into iterate_index=0 before calling "
    "super().before_nonlinear_loop() (initial guess / predictor); guesses are bounded (|p| <= ~1) so that "
    "Newton still converges",
    "time_step_indices is overridden to store 1 or 2 solutions (documented extension point)",
]
REQUIRED = {
    "planned-failure": 0.35,
    "failure-after-accepted-step": 0.2,
    "first-solve-fails": 0.05,
    "diverged": 0.2,
    "max-iterations-exhausted": 0.1,
    "completed": 0.4,
    "raised": 0.05,
    "nstore2": 0.3,
    "fracture": 0.15,
    "replayed": 0.2,
    "initial-guess": 0.35,
    "failure-with-guess": 0.12,
    "iterates-2": 0.15,
    "time-dependent-bc": 0.25,
}


# ----------------------------------------------------------------------------- strategy
@st.composite
def _spec(draw, tier):
    fracture = draw(st.sampled_from([False, False, True]))
    nxy = draw(st.sampled_from([[2, 1], [2, 2]] if fracture else [[2, 1], [3, 1], [4, 1], [2, 2]]))
    comp = draw(st.sampled_from([0.1, 0.2, 0.5, 1.0]))
    perm = draw(st.sampled_from([0.05, 0.2, 1.0]))
    src = draw(st.sampled_from([0.25, 0.5, 1.0, -0.5]))
    nstore = draw(st.sampled_from([1, 2, 2]))
    max_it = draw(st.sampled_from([5, 6, 8, 10]))

    t0 = draw(st.sampled_from([0, 0, 0.5, 3]))
    T = draw(st.sampled_from([0.5, 1, 1.0, 2]))
    nsteps = draw(st.sampled_from([1, 2, 3, 4, 4]))
    dt_init = T / nsteps
    under = draw(st.sampled_from([0.5, 0.7]))
    over = draw(st.sampled_from([1.5, 2.0]))
    f1 = draw(st.sampled_from([1, 0.5, 0.25, 0.25, 0.25, 0.125, 0.125, 0.125]))
    f2 = draw(st.sampled_from([1, 1, 2, 4]))
    need = max(over, 1.0 / under)
    if f2 / f1 <= need * 1.001:
        f1 = f2 / 4.0
    lo = min(draw(st.sampled_from([1, 3, 4, 5, 5, 6])), max_it)
    hi = draw(st.sampled_from([lo, min(lo + 1, max_it + 1), max_it, max_it + 1, max_it + 1]))
    tm = {
        "schedule": [t0, t0 + T], "dt_init": dt_init, "dt_min_max": [dt_init * f1, dt_init * f2],
        "iter_max": max_it + 1, "iter_optimal_range": [lo, hi], "iter_relax_factors": [under, over],
        "recomp_factor": draw(st.sampled_from([0.5, 0.5, 0.25])), "recomp_max": draw(st.sampled_from([1, 2, 2, 3])),
    }
    nplan = draw(st.sampled_from([0, 3, 4, 5, 6, 8, 8]))
    plan = []
    for k in range(nplan):
        kind = draw(st.sampled_from(["ok"] * 10 + ["div", "never"] if k == 0 else
                                    ["ok", "ok", "ok", "ok", "div", "div", "never", "never"] if k <= 3 else
                                    ["ok", "ok", "ok", "ok", "ok", "div", "div", "never"]))
        if kind == "div":
            plan.append(["div", draw(st.integers(1, max_it + 1))])
        else:
            plan.append([kind])
    gkind = draw(st.sampled_from(["none", "none", "extrapolate", "extrapolate", "perturb", "perturb", "garbage"]))
    guess = {"kind": gkind}
    if gkind != "none":
        guess["when"] = draw(st.sampled_from(["all", "all", "first-attempt"]))
        guess["amp"] = draw(st.sampled_from([1e-3, 0.1] if gkind == "perturb" else [0.1, 1.0]))
    return {"nxy": nxy, "fracture": fracture, "src": src, "compressibility": comp, "perm": perm, "nstore": nstore,
            "tm": tm, "max_iterations": max_it, "plan": plan, "replay": draw(st.booleans()),
            "guess": guess, "nit": draw(st.sampled_from([1, 1, 2])), "bc_ramp": draw(st.sampled_from([0, 0, 0.5, -1.0]))}


def strategy(tier):
    return _spec(tier)


# ----------------------------------------------------------------------------- harness model
_CLS = {}


def _classes():
    if _CLS:
        return _CLS
    import porepy as pp
    from porepy.applications.md_grids.model_geometries import SquareDomainOrthogonalFractures

    class Flow(SquareDomainOrthogonalFractures, pp.SinglePhaseFlow):
        """Compressible single-phase flow on a tiny Cartesian grid (no injection, no recording)."""

        def grid_type(self):
            return "cartesian"

        def meshing_arguments(self):
            nx, ny = self.params["nxy"]
            return {"cell_size": 1.0 / nx, "cell_size_x": 1.0 / nx, "cell_size_y": 1.0 / ny}

        def darcy_flux_discretization(self, subdomains):
            return pp.ad.TpfaAd(self.darcy_keyword, subdomains)

        def fluid_source(self, subdomains):
            vals = []
            for sd in subdomains:
                v = np.zeros(sd.num_cells)
                if sd.dim == 2:
                    v[0] = self.params["src"]
                vals.append(v)
            ext = pp.ad.DenseArray(np.hstack(vals) if vals else np.zeros(0), "external_source")
            return super().fluid_source(subdomains) + ext

        @property
        def time_step_indices(self):
            return np.arange(self.params["nstore"])

        @property
        def iterate_indices(self):
            return np.arange(self.params.get("nit", 1))

        def bc_values_pressure(self, bg):
            # zero, or a linear ramp in time on the west boundary (0 at the initial time, bc_ramp at the end)
            vals = np.zeros(bg.num_cells)
            amp = self.params.get("bc_ramp", 0)
            if amp:
                tmg = self.time_manager
                frac = (float(tmg.time) - float(tmg.time_init)) / (float(tmg.time_final) - float(tmg.time_init))
                vals[self.domain_boundary_sides(bg).west] = amp * frac
            return vals

    class Harness(Flow):
        """Failure injection in check_convergence; state snapshots around the base hooks."""

        def _snap(self):
            es = self.equation_system
            return {
                "it": es.get_variable_values(iterate_index=0).copy(),
                "ts": [es.get_variable_values(time_step_index=int(i)).copy() for i in self.time_step_indices],
                "time": float(self.time_manager.time),
                "dt": float(self.time_manager.dt),
            }

        def before_nonlinear_loop(self):
            # state as the driver left it (before the initial guess of this model is written)
            self.c10_solve = getattr(self, "c10_solve", -1) + 1
            self.c10_iter = 0
            snap = self._snap()
            if not hasattr(self, "c10_accepted"):
                self.c10_accepted = [snap["ts"][0].copy()]  # the initial condition
                self.c10_retry = False
            # Initial-guess mixin (predictor): a model may start the Newton loop from any vector it likes.  The
            # guess is built from the accepted solutions tracked by the harness, not from the stored state.
            g = self.params.get("guess", {"kind": "none"})
            guess = None
            if g["kind"] != "none" and not (g["when"] == "first-attempt" and self.c10_retry):
                acc = self.c10_accepted
                n = acc[-1].size
                pattern = np.sin(1.7 * np.arange(n) + 0.3 * (self.c10_solve + 1))
                if g["kind"] == "extrapolate" and len(acc) >= 2:
                    guess = 2.0 * acc[-1] - acc[-2]
                elif g["kind"] == "perturb":
                    guess = acc[-1] + g["amp"] * pattern
                elif g["kind"] == "garbage":
                    guess = g["amp"] * pattern
            active = guess is not None and not np.array_equal(guess, snap["ts"][0])
            if active:
                self.equation_system.set_variable_values(guess, iterate_index=0)
            super().before_nonlinear_loop()
            self.c10_log.append({"kind": "start", "solve": self.c10_solve, "guess": bool(active), **snap})

        def check_convergence(self, nonlinear_increment, residual, reference_residual, nl_params):
            conv, div = super().check_convergence(nonlinear_increment, residual, reference_residual, nl_params)
            self.c10_iter += 1
            plan = self.c10_plan
            entry = plan[self.c10_solve] if self.c10_solve < len(plan) else ["ok"]
            if entry[0] == "div":
                return False, self.c10_iter >= entry[1]
            if entry[0] == "never":
                return False, False
            return conv, div

        def after_nonlinear_convergence(self):
            pre = self._snap()
            iters = int(self.nonlinear_solver_statistics.num_iteration)
            super().after_nonlinear_convergence()
            self.c10_accepted.append(pre["it"])
            self.c10_retry = False
            self.c10_log.append({"kind": "conv", "solve": self.c10_solve, "pre": pre, "post": self._snap(),
                                 "iters": iters})

        def after_nonlinear_failure(self):
            pre = self._snap()
            iters = int(self.nonlinear_solver_statistics.num_iteration)
            self.c10_retry = True
            try:
                super().after_nonlinear_failure()
            except ValueError as e:
                self.c10_log.append({"kind": "fail-raise", "solve": self.c10_solve, "pre": pre, "iters": iters,
                                     "msg": str(e)})
                raise
            self.c10_log.append({"kind": "fail", "solve": self.c10_solve, "pre": pre, "post": self._snap(),
                                 "iters": iters})

    _CLS.update(Flow=Flow, Harness=Harness)
    return _CLS


def _model_params(spec, tm):
    import porepy as pp

    fluid = pp.FluidComponent(compressibility=spec["compressibility"], density=1.0, viscosity=1.0)
    solid = pp.SolidConstants(porosity=0.2, permeability=spec["perm"], normal_permeability=spec["perm"],
                              residual_aperture=0.1)
    return {
        "time_manager": tm, "times_to_export": [], "fracture_indices": [0] if spec["fracture"] else [],
        "nxy": spec["nxy"], "src": spec["src"], "nstore": spec["nstore"], "linear_solver": "scipy_sparse",
        "guess": spec.get("guess", {"kind": "none"}), "nit": spec.get("nit", 1), "bc_ramp": spec.get("bc_ramp", 0),
        "material_constants": {"fluid": fluid, "solid": solid},
    }


def _time_manager(spec):
    import porepy as pp

    t = spec["tm"]
    return pp.TimeManager(
        schedule=t["schedule"], dt_init=t["dt_init"], constant_dt=False, dt_min_max=tuple(t["dt_min_max"]),
        iter_max=t["iter_max"], iter_optimal_range=tuple(t["iter_optimal_range"]),
        iter_relax_factors=tuple(t["iter_relax_factors"]), recomp_factor=t["recomp_factor"],
        recomp_max=t["recomp_max"])


def warmup():
    check({"nxy": [2, 2], "fracture": True, "src": 1.0, "compressibility": 0.5, "perm": 0.05, "nstore": 2,
           "tm": {"schedule": [0, 1], "dt_init": 0.5, "dt_min_max": [0.125, 1.0], "iter_max": 7,
                  "iter_optimal_range": [2, 4], "iter_relax_factors": [0.5, 2.0], "recomp_factor": 0.5,
                  "recomp_max": 2},
           "max_iterations": 6, "plan": [["ok"], ["div", 2]], "replay": True,
           "guess": {"kind": "perturb", "when": "all", "amp": 0.1}, "nit": 2, "bc_ramp": 0.5})


# ----------------------------------------------------------------------------- check
NL_TOL = 1e-10


def check(spec):
    import porepy as pp

    cls = _classes()
    t = spec["tm"]
    t0, t_final = t["schedule"]
    dt_min = t["dt_min_max"][0]
    rmax = t["recomp_max"]
    nstore = spec["nstore"]
    plan = spec["plan"]
    scale_t = max(abs(t_final), 1e-300)

    tm = _time_manager(spec)
    model = cls["Harness"](_model_params(spec, tm))
    model.c10_plan = plan
    model.c10_log = log = []
    solver_params = {"max_iterations": spec["max_iterations"], "nl_convergence_tol": NL_TOL}
    raised = None
    try:
        pp.run_time_dependent_model(model, solver_params)
    except ValueError as e:
        # Only the documented "recomputation exhausted / dt == dt_min" error of the failure hook is an expected
        # outcome; it is recorded by the harness.  Anything else propagates (and is reported by the runner).
        if not (log and log[-1]["kind"] == "fail-raise"):
            raise
        raised = e

    # ---- interpret the record against the bookkeeping model
    labels = []
    starts = [r for r in log if r["kind"] == "start"]
    if not starts:
        raise HarnessError("no Newton solve was recorded")
    last_sol = starts[0]["ts"][0].copy()  # initial condition
    prev_sol = last_sol.copy()  # initialize_previous_iterate_and_time_step_values copies it to all indices
    last_time = float(t0)
    fails = 0
    accepted = []  # (time, dt, solution)
    n_planned_fail = 0
    nontrivial = False
    open_start = None
    final_reached = False

    def planned(k):
        return plan[k][0] if k < len(plan) else "ok"

    for r in log:
        k = r["solve"]
        if r["kind"] == "start":
            require(open_start is None, "solve-without-hook",
                    lambda: f"solve {open_start['solve']} (planned {planned(open_start['solve'])}) ended without "
                            f"after_nonlinear_convergence / after_nonlinear_failure being called")
            require(not final_reached, "solve-after-final-time", f"solve {k} starts at t={r['time']!r} after the final time")
            open_start = r
            if r.get("guess"):
                labels.append("initial-guess")
            require(abs((r["time"] - r["dt"]) - last_time) <= 1e-12 * scale_t, "attempt-not-from-last-accepted-time",
                    lambda: f"solve {k} is at t={r['time']!r} with dt={r['dt']!r}; last accepted time {last_time!r}")
            require_equal(r["ts"][0], last_sol, "start-timestep-values-not-last-accepted", f"solve {k}")
            require_equal(r["it"], last_sol, "start-iterate-not-last-accepted", f"solve {k}")
            if nstore == 2:
                require_equal(r["ts"][1], prev_sol, "start-previous-timestep-values", f"solve {k}")
            continue
        require(open_start is not None and open_start["solve"] == k, "hook-without-solve", f"record {r['kind']} solve {k}")
        with_guess = bool(open_start.get("guess"))
        open_start = None
        pl = planned(k)
        pre = r["pre"]
        dt_used = pre["dt"]
        if r["kind"] == "conv":
            require(pl == "ok", "planned-failure-reported-converged",
                    lambda: f"solve {k} planned {plan[k]} but after_nonlinear_convergence was called")
            post = r["post"]
            require_equal(post["ts"][0], pre["it"], "timestep-values-not-converged-iterate", f"solve {k}")
            require_equal(post["it"], pre["it"], "iterate-changed-by-convergence-hook", f"solve {k}")
            if nstore == 2:
                require_equal(post["ts"][1], last_sol, "previous-solution-not-shifted", f"solve {k}")
            require(post["time"] == pre["time"], "time-changed-on-convergence",
                    lambda: f"solve {k}: {pre['time']!r} -> {post['time']!r}")
            prev_sol, last_sol = last_sol, pre["it"].copy()
            require(pre["time"] > last_time, "accepted-time-not-increasing", f"{pre['time']!r} after {last_time!r}")
            last_time = pre["time"]
            fails = 0
            accepted.append((pre["time"], dt_used, last_sol))
            if abs(last_time - t_final) <= 1e-16 + 1e-10 * abs(t_final):
                final_reached = True
            if not np.array_equal(last_sol, prev_sol):
                labels.append("solution-changed")
            labels.append(f"newton-its-{min(r['iters'], 6)}")
        else:
            if pl != "ok":
                n_planned_fail += 1
                labels.append("planned-failure")
                labels.append("diverged" if pl == "div" else "max-iterations-exhausted")
                if accepted:
                    labels.append("failure-after-accepted-step")
                    nontrivial = True
                elif k == 0:
                    labels.append("first-solve-fails")
            else:
                labels.append("unplanned-failure")
            if with_guess and r["kind"] == "fail":
                labels.append("failure-with-guess")
            expect_raise = fails >= rmax or dt_used == dt_min
            if r["kind"] == "fail-raise":
                require(expect_raise, "unexpected-raise",
                        lambda: f"solve {k}: ValueError({r['msg']}) after {fails} consecutive failures "
                                f"(recomp_max={rmax}), dt={dt_used!r}, dt_min={dt_min!r}")
                labels.append("raised")
                labels.append("raise-recomp-exhausted" if fails >= rmax else "raise-dt-min")
                break
            require(not expect_raise, "missing-raise",
                    lambda: f"solve {k}: no ValueError although consecutive failures={fails} (recomp_max={rmax}), "
                            f"dt={dt_used!r}, dt_min={dt_min!r}")
            post = r["post"]
            require_equal(post["it"], last_sol, "iterate-not-reset-after-failure", f"solve {k}")
            require_equal(post["ts"][0], last_sol, "timestep-values-changed-by-failure", f"solve {k}")
            if nstore == 2:
                require_equal(post["ts"][1], prev_sol, "previous-timestep-values-changed-by-failure", f"solve {k}")
            require(abs(post["time"] - last_time) <= 1e-12 * scale_t, "time-not-rewound-after-failure",
                    lambda: f"solve {k}: clock {post['time']!r}, last accepted time {last_time!r}")
            fails += 1

    if raised is None:
        require(open_start is None, "solve-without-hook",
                lambda: f"last solve {open_start['solve']} (planned {planned(open_start['solve'])}) ended without hook")
        require(final_reached and abs(float(tm.time) - t_final) <= 1e-16 + 1e-10 * abs(t_final),
                "run-did-not-end-at-final-time",
                lambda: f"tm.time={float(tm.time)!r}, last accepted {last_time!r}, final {t_final!r}")
        es = model.equation_system
        require_equal(es.get_variable_values(time_step_index=0), last_sol, "final-history-0", "time_step[0] at the end")
        require_equal(es.get_variable_values(iterate_index=0), last_sol, "final-iterate", "iterate[0] at the end")
        if nstore == 2:
            require_equal(es.get_variable_values(time_step_index=1), prev_sol, "final-history-1",
                          "time_step[1] at the end")
        labels.append("completed")
    else:
        require(log[-1]["kind"] == "fail-raise", "raise-not-from-failure-hook", str(raised))

    # ---- failure-free re-run over exactly the accepted steps
    if spec["replay"] and accepted:
        labels.append("replayed")
        tm2 = pp.TimeManager(schedule=[t0, t_final], dt_init=t_final - t0, constant_dt=True)
        ref = cls["Flow"](_model_params(spec, tm2))
        ref.prepare_simulation()
        solver = pp.NewtonSolver({"max_iterations": 50, "nl_convergence_tol": NL_TOL})
        for j, (tj, dtj, solj) in enumerate(accepted):
            tm2.dt = dtj
            tm2.increase_time()
            tm2.increase_time_index()
            ok = solver.solve(ref)
            if not ok:
                raise HarnessError(f"reference run did not converge at accepted step {j}")
            got = ref.equation_system.get_variable_values(time_step_index=0)
            require_close(solj, got, "accepted-solution-differs-from-failure-free-run", rtol=1e-7, atol=1e-10,
                          what=f"accepted step {j} (t={tj!r}, dt={dtj!r})")

    labels.append("nstore2" if nstore == 2 else "nstore1")
    labels.append("iterates-%d" % spec.get("nit", 1))
    labels.append("guess-" + spec.get("guess", {"kind": "none"})["kind"])
    if spec.get("bc_ramp", 0):
        labels.append("time-dependent-bc")
    if spec["fracture"]:
        labels.append("fracture")
    labels.append("cells-%d" % (spec["nxy"][0] * spec["nxy"][1]))
    if n_planned_fail == 0:
        labels.append("no-failure")
    return {"labels": sorted(set(labels)), "nontrivial": nontrivial}
