"""C20 Grid geometry is equivariant under rigid motions (metamorphic)."""
from __future__ import annotations

import numpy as np
from hypothesis import strategies as st

from ..core import require, require_close
from ..gen.grids import build_grid, grid_meta, grid_spec, rigid_spec, rotation_matrix

ID = "C20"
RULE = (
    "Hypothesis draws a grid spec (all families of C19, dims 1-3, perturbed / affine / mixed polygons) and a proper "
    "rigid motion (Rodrigues rotation about a random / axis-aligned axis, angles incl. pi/2, pi and pi-1e-3..1e-6, plus "
    "translation). The grid geometry is computed before and after moving the nodes (1-d and 2-d grids thereby embedded "
    "in arbitrary lines / planes, exercising compute_tangent / compute_normal plane fitting). Oracle: volumes and "
    "areas unchanged, cell and face centres mapped by the motion, normals mapped by the rotation (in every dimension the "
    "normal is determined by face, area and outward side, so equality - not only up to sign - is required); rtol 1e-9. "
    "Non-trivial = dim>=2 or non-axis-aligned rotation; distinct = hash of spec."
)
BUDGET = {"quick": {"cases": 2400, "seconds": 40}, "thorough": {"cases": 150000, "seconds": 1200}}
TECHNIQUE = "property-based testing (Hypothesis): metamorphic relation under generated rigid motions"
LEVEL_TEXT = ("Exploration: thousands of (grid, rigid motion) pairs per run; recomputed geometry of the moved grid is "
              "compared entity by entity with the moved geometry of the original grid.")
LEVEL_NOTE = "Grids of at most a few hundred cells; tolerance 1e-9 relative to coordinate magnitude."
DESIGN_REF = "DESIGN.md section 4, C20"
ASSUMPTIONS = ["rotations are proper (det +1)"]
REQUIRED = {"dim1": 0.1, "dim2": 0.1, "dim3": 0.1, "rot-axis": 0.1, "rot-random": 0.1, "rot-nearpi": 0.1}


@st.composite
def _spec(draw, tier):
    g = draw(grid_spec(rigid=False, gmsh=(tier == "thorough")))
    r = draw(rigid_spec(identity_ok=False))
    return {"grid": g, "motion": r}


def strategy(tier):
    return _spec(tier)


def check(spec):
    gs = dict(spec["grid"])
    gs["rigid"] = None
    g0 = build_grid(gs)
    g1 = build_grid(gs, compute_geometry=False)
    m = spec["motion"]
    R = rotation_matrix(m["axis"], m["angle"])
    t = np.asarray(m["shift"], dtype=float)[:, None]
    g1.nodes = R @ g1.nodes + t
    g1.compute_geometry()
    sc = float(np.abs(g1.nodes).max()) + 1.0
    require_close(g1.cell_volumes, g0.cell_volumes, "volumes", rtol=1e-9, what="cell volumes after motion")
    require_close(g1.face_areas, g0.face_areas, "areas", rtol=1e-9, what="face areas after motion")
    require_close(g1.cell_centers, R @ g0.cell_centers + t, "cell-centers", rtol=1e-9, scale=sc, what="cell centres")
    require_close(g1.face_centers, R @ g0.face_centers + t, "face-centers", rtol=1e-9, scale=sc, what="face centres")
    if g0.dim > 0:
        require_close(g1.face_normals, R @ g0.face_normals, "normals", rtol=1e-9,
                      scale=float(np.abs(g0.face_normals).max()), what="face normals vs R n")
    ax = np.abs(np.asarray(m["axis"], dtype=float))
    axis_aligned = np.count_nonzero(ax) == 1
    near_pi = abs(abs(m["angle"]) - np.pi) < 2e-3 and not axis_aligned
    lab = "rot-axis" if axis_aligned else ("rot-nearpi" if near_pi else "rot-random")
    labels = [l for l in grid_meta(gs)["labels"]] + [lab]
    return {"labels": labels, "nontrivial": gs["dim"] >= 2 or not axis_aligned}
