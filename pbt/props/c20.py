"""C20 Grid geometry is equivariant under rigid motions (metamorphic)."""
from __future__ import annotations

import numpy as np
from hypothesis import strategies as st

from ..core import require, require_close
from ..gen.grids import build_grid, grid_meta, grid_spec, rigid_spec, rotation_matrix

ID = "C20"
RULE = (
    "Hypothesis draws a grid spec (all families of C19, dims 1-3, perturbed / affine / mixed polygons) and a proper "
    "rigid motion on grids of length scale 1e-4..1e3 (Rodrigues rotation about a random / axis-aligned axis, angles incl. pi/2, pi and pi-1e-3..1e-6, plus "
    "translation). The grid geometry is computed before and after moving the nodes (1-d and 2-d grids thereby embedded "
    "in arbitrary lines / planes, exercising compute_tangent / compute_normal plane fitting). Oracle: volumes and "
    "areas unchanged, cell and face centres mapped by the motion, normals mapped by the rotation (in every dimension the "
    "normal is determined by face, area and outward side, so equality - not only up to sign - is required); rtol 1e-9. "
    "For 1-d and 2-d grids map_geometry.map_grid of the moved grid must in addition return an isometric copy of the original "
    "geometry in g.dim local coordinates (distances between centres / nodes, normal lengths, R orthogonal). "
    "Non-trivial = dim>=2 or non-axis-aligned rotation; distinct = hash of spec."
)
BUDGET = {"quick": {"cases": 2400, "seconds": 40}, "thorough": {"cases": 150000, "seconds": 1200}}
TECHNIQUE = "property-based testing (Hypothesis): metamorphic relation under generated rigid motions"
LEVEL_TEXT = ("Exploration: thousands of (grid, rigid motion) pairs per run; recomputed geometry of the moved grid is "
              "compared entity by entity with the moved geometry of the original grid.")
LEVEL_NOTE = "Grids of at most a few hundred cells; tolerance 1e-9 relative to coordinate magnitude."
DESIGN_REF = "DESIGN.md section 4, C20"
ASSUMPTIONS = ["rotations are proper (det +1)"]
REQUIRED = {"dim1": 0.1, "dim2": 0.1, "dim3": 0.1, "rot-axis": 0.1, "rot-random": 0.1, "rot-nearpi": 0.1}


@st.composite
def _spec(draw, tier):
    g = draw(grid_spec(rigid=False, gmsh=(tier == "thorough"), scales=True, arrow=True, tri_user=True))
    r = draw(rigid_spec(identity_ok=False))
    return {"grid": g, "motion": r}


def strategy(tier):
    return _spec(tier)


def check(spec):
    gs = dict(spec["grid"])
    gs["rigid"] = None
    g0 = build_grid(gs)
    g1 = build_grid(gs, compute_geometry=False)
    m = spec["motion"]
    R = rotation_matrix(m["axis"], m["angle"])
    t = np.asarray(m["shift"], dtype=float)[:, None]
    g1.nodes = R @ g1.nodes + t
    g1.compute_geometry()
    # tolerances relative to the grid's own size, plus the rounding floor set by the coordinate magnitude
    extent = float(np.ptp(g0.nodes, axis=1).max())
    cmax = max(float(np.abs(g1.nodes).max()), float(np.abs(g0.nodes).max()))
    atol_x = 1e-9 * extent + 1e-12 * cmax
    rel_round = 1e-9 + 1e-12 * cmax / extent  # relative accuracy attainable for differences of coordinates
    require_close(g1.cell_volumes, g0.cell_volumes, "volumes", rtol=rel_round * g0.dim, atol=0.0,
                  what="cell volumes after motion")
    require_close(g1.face_areas, g0.face_areas, "areas", rtol=rel_round * max(g0.dim - 1, 1), atol=0.0,
                  what="face areas after motion")
    require_close(g1.cell_centers, R @ g0.cell_centers + t, "cell-centers", rtol=0.0, atol=atol_x, what="cell centres")
    require_close(g1.face_centers, R @ g0.face_centers + t, "face-centers", rtol=0.0, atol=atol_x, what="face centres")
    if g0.dim > 0:
        require_close(g1.face_normals, R @ g0.face_normals, "normals", rtol=rel_round * max(g0.dim - 1, 1), atol=0.0,
                      scale=float(np.abs(g0.face_normals).max()), what="face normals vs R n")
    if g0.dim in (1, 2):
        # The fitting path for embedded grids: the local coordinates of the moved grid are an isometric copy of the
        # original geometry (distances between all centres and nodes, lengths of the normals), R is a rotation.
        import porepy as pp
        cc, fn, fc, Rm, act, nd = pp.map_geometry.map_grid(g1)
        require(int(np.sum(act)) == g0.dim and cc.shape[0] == g0.dim, "map-grid-active-dims", f"active {act}")
        require_close(Rm @ Rm.T, np.eye(3), "map-grid-rotation", rtol=0.0, atol=1e-9, what="R R^T of map_grid")
        P1 = np.hstack([cc, fc, nd])
        P0 = np.hstack([g0.cell_centers, g0.face_centers, g0.nodes])
        k = min(P0.shape[1], 40)
        D1 = np.linalg.norm(P1[:, :, None] - P1[:, None, :k], axis=0)
        D0 = np.linalg.norm(P0[:, :, None] - P0[:, None, :k], axis=0)
        require_close(D1, D0, "map-grid-isometry", rtol=0.0, atol=10 * atol_x, what="distances in local coordinates")
        require_close(np.linalg.norm(fn, axis=0), g0.face_areas, "map-grid-normals", rtol=rel_round * 10, atol=0.0,
                      what="lengths of mapped normals vs face areas")
    ax = np.abs(np.asarray(m["axis"], dtype=float))
    axis_aligned = np.count_nonzero(ax) == 1
    near_pi = abs(abs(m["angle"]) - np.pi) < 2e-3 and not axis_aligned
    lab = "rot-axis" if axis_aligned else ("rot-nearpi" if near_pi else "rot-random")
    labels = [l for l in grid_meta(gs)["labels"]] + [lab]
    return {"labels": labels, "nontrivial": gs["dim"] >= 2 or not axis_aligned}
