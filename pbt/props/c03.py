"""C03 Model Jacobians are the derivative of the model residual."""
from __future__ import annotations

import numpy as np

from ..core import Violation, require
from ..gen.models import build_model, model_labels, model_spec, random_state

ID = "C03"
RULE = (
    "Hypothesis draws a model family (single-phase flow, mass+energy, momentum, poromechanics, thermoporomechanics) on "
    "the library's 2-d / 3-d test geometries with a random subset of 0-3 fractures (Cartesian; simplex through gmsh in "
    "the thorough tier), random fluid / solid constants (compressible and incompressible fluid, Biot coefficient, "
    "friction, dilation, thermal expansion ...), in a quarter of the cases the differentiable flux laws DarcysLawAd / "
    "FouriersLawAd on a TPFA base discretisation (on an MPFA base the library documents the Jacobian as an approximation, "
    "so it is not generated here), a random time step, a state x = x_ref + delta (delta scaled per "
    "variable, amplitude 1e-2..0.5) and a random previous-time-step state; the same model instance is taken through 1-3 "
    "such states in sequence, each checked, in half of these cases with an evaluation that raises (size mismatch after a "
    "variable has been parsed, at yet another state) in between. Discretizations are brought up to date at x "
    "(before_nonlinear_iteration, i.e. upwind directions follow the state) and then held fixed. Oracle: for a random "
    "direction v, J v = -(b(x+hv) - b(x-hv)) / 2h (b = assembled rhs = -residual), best of h in {1e-5,1e-6,1e-7}, "
    "relative error < 1e-6 per equation block (assembled_equation_indices). A block where central differences disagree "
    "AND the two one-sided differences disagree with each other (a kink of max/abs inside the stencil) is discarded and "
    "counted. Non-trivial = fractured or >= 2 coupled equations; distinct = hash of spec."
)
BUDGET = {"quick": {"cases": 120, "seconds": 60}, "thorough": {"cases": 4000, "seconds": 1500}}
TECHNIQUE = "property-based testing (Hypothesis): directional finite-difference derivative of the assembled residual vs assembled Jacobian"
LEVEL_TEXT = ("Exploration: hundreds (quick) to thousands (thorough) of generated model configurations and states; the "
              "assembled Jacobian is compared block-wise with a central finite difference of the assembled residual "
              "along random directions, so a missing or wrong derivative term in any constitutive law is exposed.")
LEVEL_NOTE = ("Numerical derivative: errors below 1e-6 relative are invisible; one random direction per case; grids are the "
              "library's small test geometries; real models are expensive, so case counts are hundreds, not millions.")
DESIGN_REF = "DESIGN.md section 4, C03"
ASSUMPTIONS = ["discretization matrices frozen during differencing", "state in the smooth region (non-smooth stencils discarded and counted)"]
REQUIRED = {"states2": 0.15, "states3": 0.15, "failed-evaluation-between-states": 0.1, "ad-flux": 0.08}


def strategy(tier):
    if tier == "quick":
        return model_spec(dims=(2, 2, 2, 2, 2, 3), simplex=False, nonmatching=True, units=True, adflux=("tpfa",))
    return model_spec(dims=(2, 2, 3), simplex=True, nonmatching=True, units=True, adflux=("tpfa",))


def warmup():
    from ..gen.models import build_model as bm

    base = {"fracs": [0], "cartesian": True, "fluid": {}, "solid": {}, "dt": 1.0, "amp": 0.1, "pseed": 0}
    for name, dim in (("thermoporomechanics", 2),):
        m = bm(dict(base, model=name, dim=dim))
        m.equation_system.assemble()


def check(spec):
    m = build_model(spec)
    # one model instance is taken through 1-3 states in sequence (as a Newton iteration / time loop does): whatever the
    # instance remembers from an earlier assembly must not leak into a later one
    nstates = 1 + spec["pseed"] % 3
    out = None
    for s in range(nstates):
        r = _check_state(m, spec, s, fail_first=(s > 0 and (spec["pseed"] // 3) % 2 == 0))
        if out is None or not r["labels"][0].startswith("discarded-nonfinite"):
            out = r
    out["labels"].append(f"states{nstates}")
    if nstates > 1 and (spec["pseed"] // 3) % 2 == 0:
        out["labels"].append("failed-evaluation-between-states")
    return out


def _failed_evaluation(m, spec, s):
    """An evaluation that raises half-way (a line search stepping into an inadmissible state, an ill-formed operator)
    at some other state: it must not influence the assemblies that follow on the same model instance."""
    import porepy as pp

    es = m.equation_system
    xo = random_state(m, spec, 100 + s)
    # one of the model's own equations (so that the very operator objects of the model are involved) times an array of
    # the wrong size: the whole equation tree is evaluated at the other state before the product raises
    eq = next(iter(es.equations.values()))
    bad = eq * pp.ad.DenseArray(np.ones(3 * es.num_dofs() + 7))
    for jac in (True, False):
        try:
            if jac:
                bad.value_and_jacobian(es, state=xo.copy())
            else:
                es.evaluate(bad, state=xo.copy())
        except Exception:  # noqa: BLE001 - the failure is the point
            pass


def _check_state(m, spec, s, fail_first=False):
    es = m.equation_system
    n = es.num_dofs()
    x = random_state(m, spec, 2 * s)
    xt = random_state(m, spec, 2 * s + 1)
    es.set_variable_values(xt, time_step_index=0)
    es.set_variable_values(x, iterate_index=0)
    m.before_nonlinear_iteration()
    if fail_first:
        _failed_evaluation(m, spec, s)  # immediately before the assembly that is checked
    A, b = es.assemble(state=x.copy())
    if not (np.all(np.isfinite(b)) and np.all(np.isfinite(A.data))):
        # the random state overflowed an exponential law (possible with extreme simulation units): not a smooth point
        return {"labels": ["discarded-nonfinite-state"], "nontrivial": False}
    blocks = {k: np.array(v) for k, v in es.assembled_equation_indices.items()}
    require(A.shape == (b.size, n), "jacobian-shape", f"{A.shape} vs ({b.size},{n})")
    rng = np.random.default_rng([spec["pseed"], 7, s])
    v = rng.uniform(-1, 1, n)
    jv = A @ v
    xs = max(float(np.abs(x).max()), 1.0)
    res = {}
    b0 = es.assemble(evaluate_jacobian=False, state=x.copy())
    # (value-only and value+Jacobian evaluation use slightly different floating-point operations, e.g. a / b versus
    # a * b**-1, so the comparison is norm-wise; exact agreement of the two assembly modes is the subject of C06)
    require(float(np.abs(np.asarray(b0) - np.asarray(b)).max()) <= 1e-9 * max(float(np.abs(b).max()), 1e-300), "residual-only",
            "residual-only assembly differs from the residual of the full assembly")
    for h in (1e-5 * xs, 1e-6 * xs, 1e-7 * xs):
        bp = es.assemble(evaluate_jacobian=False, state=x + h * v)
        bm = es.assemble(evaluate_jacobian=False, state=x - h * v)
        res[h] = (-(bp - bm) / (2 * h), -(bp - b0) / h, -(b0 - bm) / h)
    labels = model_labels(spec, m)
    discarded = False
    for name, idx in blocks.items():
        if idx.size == 0:
            continue
        sc = max(float(np.abs(jv[idx]).max()), float(np.abs(b[idx]).max()) * 1e-3, 1e-8)
        errs = {h: float(np.abs(r[0][idx] - jv[idx]).max()) / sc for h, r in res.items()}
        best = min(errs.values())
        if best < 1e-6:
            continue
        # smooth or not? compare the one-sided differences at the two smaller steps
        hs = sorted(res)[:2]
        kink = all(float(np.abs(res[h][1][idx] - res[h][2][idx]).max()) / sc > 1e-3 for h in hs)
        if kink:
            discarded = True
            continue
        raise Violation("jacobian-" + name, f"equation '{name}': best relative error {best:.3e} over h "
                        f"(errors {', '.join(f'{e:.2e}' for e in errs.values())}) in model {spec['model']}"
                        f" (state {s + 1} evaluated on this model instance)")
    if discarded:
        labels.append("discarded-nonsmooth-block")
    nontrivial = len(spec["fracs"]) > 0 or len([1 for i in blocks.values() if i.size]) >= 2
    return {"labels": labels, "nontrivial": nontrivial}
