"""C19 Computed grid geometry satisfies the divergence theorem."""
from __future__ import annotations

import numpy as np

from ..core import require, require_close
from ..gen.grids import build_grid, grid_meta, grid_spec

ID = "C19"
RULE = (
    "Hypothesis draws a grid spec: dim 1-3; Cartesian / tensor (random spacings) / structured triangles (a third of them "
    "handed to TriangleGrid as a user-supplied cell-node array with the node order of every cell permuted) and "
    "tetrahedra / hand-assembled mixed polygons (quads, triangles, hexagons with hanging nodes; loop-consistent "
    "or index-oriented incidence, the latter exercising the convex-cell fallback of _compute_geometry_2d) and "
    "their extrusion to polyhedra / gmsh simplices (thorough); interior-node perturbation, affine maps (3-d), "
    "rigid embedding of 1-d/2-d grids in 3-d, global length scales 1e-4..1e3 (units); in 5 cases of 8 the nodes are then dilated in place by 1 + eps "
    "(eps 1e-7..3e-2) and the geometry is computed a second time on the same object, with the same oracle for the dilated grid. Oracle: V>0, sum V = domain measure known by construction, "
    "|n_f| = A_f, outward normals, and the divergence-theorem identities sum_f s n_f = 0, "
    "sum_f s (x_f-x0).n_f = d V, sum_f s ((x_f-x0).n_f)(x_f-x0) = (d+1) V (x_c-x0), x0 a node of the grid; "
    "rtol 1e-9 of the terms' magnitude. Non-trivial = dim>=2 and (perturbed | affine | rigid motion | mixed "
    "polygons); distinct = hash of spec."
)
BUDGET = {"quick": {"cases": 2400, "seconds": 40}, "thorough": {"cases": 150000, "seconds": 1200}}
TECHNIQUE = "property-based testing (Hypothesis): algebraic identities (divergence theorem) on generated grids"
LEVEL_TEXT = ("Exploration: thousands of generated grids per run (all grid families, perturbed / affinely mapped / "
              "embedded, mixed cell shapes); every cell is checked against three moment identities of the divergence "
              "theorem that together pin down volumes, normals, face centres and cell centres independently of the "
              "implementation.")
LEVEL_NOTE = ("Grids have at most a few hundred cells and planar faces; tolerance 1e-9 relative. "
              "Finds violations, does not prove absence.")
DESIGN_REF = "DESIGN.md section 4, C19"
ASSUMPTIONS = ["faces are planar (all generated families)", "cells convex where the incidence is not loop-oriented"]
REQUIRED = {"tri-user-node-order": 0.01, "recomputed-small": 0.2, "recomputed-large": 0.1, "dim1": 0.1, "dim2": 0.1, "dim3": 0.1, "perturbed": 0.05, "embedded": 0.1, "kind-poly": 0.02,
            "kind-polyx": 0.01, "kind-tet": 0.02, "kind-tri": 0.02}


RECOMPUTE = [None, None, None, 1e-7, 1e-6, 4e-6, 1e-4, 3e-2]


def strategy(tier):
    # in 5 cases of 8 the geometry is computed a second time on the same grid object after a dilation of its nodes
    # by a factor 1 + eps about a point of the grid (a second compute_geometry must not remember the first)
    from hypothesis import strategies as st

    g = grid_spec(gmsh=(tier == "thorough"), scales=True, tri_user=True)
    return st.tuples(g, st.sampled_from(RECOMPUTE)).map(lambda t: dict(t[0], recompute=t[1]) if t[1] else t[0])


def check_geometry(g, measure, tag_prefix=""):
    """The C19 oracle for a grid with geometry computed. Shared with C23 (refinement)."""
    import porepy as pp

    d = g.dim
    T = tag_prefix
    V = g.cell_volumes
    require(V.shape == (g.num_cells,) and np.all(V > 0), T + "volume-positive", f"min volume {V.min() if V.size else None}")
    if measure is not None:
        require_close(V.sum(), measure, T + "volume-sum", rtol=1e-10, atol=0.0, what="sum of cell volumes vs domain measure")
    A = g.face_areas
    nrm = np.linalg.norm(g.face_normals, axis=0)
    require_close(nrm, A, T + "normal-length", rtol=1e-10, atol=0.0, what="|n_f| vs face area")
    require(np.all(A > 0), T + "area-positive", "non-positive face area")
    fi, ci, sg = pp.matrix_operations.sparse_array_to_row_col_data(g.cell_faces)
    out = np.sum(g.face_normals[:, fi] * (g.face_centers[:, fi] - g.cell_centers[:, ci]), axis=0) * sg
    require(np.all(out > 0), T + "normal-outward", lambda: f"sign*n.(xf-xc) min {out.min():.3e}")
    x0 = g.nodes[:, 0:1]
    extent = float(np.ptp(g.nodes, axis=1).max())
    cmax = float(np.abs(g.nodes).max())
    xf = g.face_centers - x0
    xc = g.cell_centers - x0
    sn = g.face_normals[:, fi] * sg  # outward area-weighted normals per incidence
    nc = g.num_cells
    # zeroth moment: closed surface
    s0 = np.vstack([np.bincount(ci, weights=sn[k], minlength=nc) for k in range(3)])
    ascale = np.bincount(ci, weights=A[fi], minlength=nc)
    require(np.all(np.abs(s0) <= 1e-10 * ascale), T + "closed-surface",
            lambda: f"sum_f s n_f max {np.abs(s0).max():.3e}")
    # first moment: volume
    xdotn = np.sum(xf[:, fi] * sn, axis=0)
    s1 = np.bincount(ci, weights=xdotn, minlength=nc)
    sc1 = np.bincount(ci, weights=np.abs(xdotn), minlength=nc) + d * V
    require(np.all(np.abs(s1 - d * V) <= 1e-9 * sc1), T + "divergence-volume",
            lambda: f"sum s (xf.n) vs d*V: max err {np.abs(s1 - d * V).max():.3e}")
    # second moment: centroid
    for k in range(3):
        w = xdotn * xf[k, fi]
        s2 = np.bincount(ci, weights=w, minlength=nc)
        ref = (d + 1) * V * xc[k]
        sc2 = np.bincount(ci, weights=np.abs(w), minlength=nc) + np.abs(ref) + 1e-300
        floor = 1e-13 * float(V.max()) * max(extent, cmax)  # rounding floor: grid size and coordinate magnitude
        require(np.all(np.abs(s2 - ref) <= 1e-9 * sc2 + floor), T + "divergence-centroid",
                lambda: f"component {k}: max err {np.abs(s2 - ref).max():.3e}")


def check(spec):
    g = build_grid(spec)
    meta = grid_meta(spec)
    check_geometry(g, meta["measure"])
    labs = meta["labels"]
    eps = spec.get("recompute")
    if eps:
        c = g.nodes[:, :1].copy()
        g.nodes[:] = c + (g.nodes - c) * (1.0 + eps)  # in place, as a deforming-mesh user would
        g.compute_geometry()
        check_geometry(g, None if meta["measure"] is None else meta["measure"] * (1.0 + eps) ** g.dim, "recomputed-")
        labs = labs + ["recomputed", "recomputed-small" if eps <= 1e-5 else "recomputed-large"]
    nontrivial = spec["dim"] >= 2 and any(l in labs for l in ("perturbed", "affine", "embedded", "rotated", "poly-mixed"))
    return {"labels": labs, "nontrivial": nontrivial}
