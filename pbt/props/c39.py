"""C39 Boundary condition objects partition the boundary faces.

Spec: {"src": "grid"|"mdg", "grid": <gen.grids spec> | "mdg": <gen.mdgrids spec>,
       "bcs": [{"sd": u, "cls": "scalar"|"vector", "calls": [call, ...], "i2d": bool, "bad": null|str}, ...]}
call = {"form": "none"|"index"|"mask", "who": "all"|"some"|"empty", "sel": [u, ...],
        "cond": "dir"|... | [labels...], "case": 0|1|2}
A call is resolved against the grid once it is built: boundary faces B = faces with exactly one
neighbouring cell (from cell_faces, independent of the tags the class reads); "some" picks
B[u % |B|] for u in sel (duplicates dropped), "all" takes B, "empty" nothing; a label list is
cycled over the picked faces (for masks in increasing face order, as np.argwhere delivers them).
The first call is the constructor, further calls (vectorial class only) are set_bc()."""
from __future__ import annotations

import numpy as np
from hypothesis import strategies as st

from ..core import HarnessError, Violation, canon, require, require_equal
from ..gen.grids import build_grid, grid_meta, grid_spec
from ..gen.mdgrids import build_mdg, mdg_labels, mdg_spec

ID = "C39"
RULE = (
    "(One case in six is a history on the same grid objects: conditions are built and checked on the intact Cartesian host and "
    "fracture grids, meshing.subdomains_to_mdg then splits their faces in place, and conditions are built and checked again.) "
    "Hypothesis draws a grid (every family of gen/grids.py in 1-3 d: Cartesian, tensor, structured simplex, "
    "mixed-shape polygonal 'poly' and its extrusion 'polyx') or a fractured md-grid of gen/mdgrids.py (0-3 "
    "axis-aligned fractures, X/T/L intersections; every subdomain is used: split host with fracture faces, "
    "fracture grids with tip faces, intersection lines, 0-d points) and 1-4 boundary-condition objects on it: "
    "scalar or vectorial (dim>=2) class; no arguments / integer index array in random order / boolean mask; all, "
    "some or none of the boundary faces; one label for all or a label per face (dir/neu/rob, mixed case); for "
    "the vectorial class up to two further set_bc calls (re-assignment), and internal_to_dirichlet on hosts "
    "whose fracture faces were left at their default. Oracle (exact, boolean): boundary faces = faces with "
    "exactly one neighbouring cell in cell_faces; a face mentioned once carries exactly its label, a boundary "
    "face never mentioned is Neumann, a face mentioned several times carries exactly one type, any other face "
    "none; vectorial: the same in every component. Copy histories: copy() (documented as a deep copy), copy of "
    "the copy, then 0-4 re-assignments on any of the objects (documented attribute access, or set_bc where the "
    "object has it): after every step every object carries the flags of its own history and exactly one type "
    "per boundary face and component. Documented ValueErrors (interior face, wrong mask size, "
    "label count, unknown keyword) are expected for the invalid classes. Non-trivial = grid with >=1 boundary "
    "face and >=1 face assigned; distinct = hash of spec."
)
BUDGET = {"quick": {"cases": 8000, "seconds": 35}, "thorough": {"cases": 120000, "seconds": 1100}}
TECHNIQUE = "property-based testing (Hypothesis): exact comparison with a face-by-face reference assignment"
LEVEL_TEXT = ("Exploration: thousands of generated grids (all cell-shape families, split fractured hosts, fracture "
              "grids with tips, 0-d grids) times several condition assignments each (index arrays, masks, uniform "
              "and per-face labels, re-assignment), compared flag by flag with a reference built from the "
              "cell-face incidence alone.")
LEVEL_NOTE = ("Grids are small (<= ~150 faces). Per-component manipulation of the vectorial flags by the user "
              "(documented as the user's own responsibility) is not exercised. Finds violations, does not prove absence.")
DESIGN_REF = "DESIGN.md section 4, C39"
ASSUMPTIONS = [
    "vectorial class only on grids of dimension >= 2 (class docstring: 'sd.dim > 1 for the procedure to make sense')",
    "faces are given as numpy integer arrays or boolean masks (the constructor reads faces.dtype)",
    "for a face mentioned more than once only the partition is demanded, not which label wins",
    "internal_to_dirichlet is applied as its callers do: fracture faces still at their default",
]
REQUIRED = {
    "cls-scalar": 0.2, "cls-vector": 0.15, "form-index": 0.15, "form-mask": 0.15, "form-none": 0.03,
    "src-grid": 0.2, "src-mdg": 0.12, "src-split": 0.06, "split-faces-after-first-conditions": 0.04, "has-fracture-faces": 0.08, "has-tip-faces": 0.05,
    "assigned-fracture-face": 0.03, "cond-str": 0.1, "cond-list": 0.1, "label-dir": 0.2, "label-neu": 0.1,
    "label-rob": 0.1, "who-all": 0.05, "who-some": 0.1, "reassign": 0.03, "i2d": 0.015, "copy-history": 0.03, "bad-interior": 0.01,
    "dim1": 0.03, "dim2": 0.1, "dim3": 0.1, "kind-poly": 0.02, "kind-polyx": 0.02, "kind-tri": 0.02,
    "kind-tet": 0.02,
}

LABELS = ["dir", "neu", "rob"]
_CASE = [str.lower, str.upper, str.capitalize]


# ----------------------------------------------------------------------------- strategy
@st.composite
def _call(draw, first):
    forms = ["none", "index", "index", "mask", "mask"] if first else ["index", "mask"]
    form = draw(st.sampled_from(forms))
    c = {"form": form, "who": "empty", "sel": [], "cond": "neu", "case": 0}
    if form == "none":
        return c
    c["who"] = draw(st.sampled_from(["all", "some", "some", "some", "empty"]))
    if c["who"] == "some":
        c["sel"] = draw(st.lists(st.integers(0, 999), min_size=1, max_size=10))
    elif c["who"] == "all":
        c["sel"] = draw(st.lists(st.integers(0, 999), min_size=0, max_size=1))
    if draw(st.booleans()):
        c["cond"] = draw(st.sampled_from(LABELS))
    else:
        c["cond"] = draw(st.lists(st.sampled_from(LABELS), min_size=1, max_size=6))
    c["case"] = draw(st.sampled_from([0, 0, 0, 1, 2]))
    return c


@st.composite
def _bc(draw, src):
    cls = draw(st.sampled_from(["scalar", "scalar", "vector"] if src == "grid" else ["scalar", "vector"]))
    # subdomain index (modulo the number of subdomains); 0 is the host of an md-grid
    b = {"sd": draw(st.sampled_from([0, 0, 1, 2, 3, 4, 5, 6, 7, 8, 9, 10, 11])), "cls": cls, "calls": [draw(_call(True))], "i2d": False, "bad": None}
    if cls == "vector":
        for _ in range(draw(st.sampled_from([0, 0, 0, 1, 2]))):
            b["calls"].append(draw(_call(False)))
        b["i2d"] = draw(st.booleans())
    if draw(st.integers(0, 11)) == 0:
        b["bad"] = draw(st.sampled_from(["interior", "interior", "masksize", "ncond", "keyword"]))
        b["calls"] = b["calls"][:1]
        b["i2d"] = False
    # copy history: number of copies in a chain (copy, copy of the copy) and re-assignments on any of the objects
    b["copies"], b["hist"] = 0, []
    if not b["bad"] and draw(st.sampled_from([False, True, False, False, False, False])):
        b["copies"] = draw(st.sampled_from([1, 1, 2]))
        for _ in range(draw(st.sampled_from([0, 1, 2, 3, 4]))):
            b["hist"].append({"on": draw(st.integers(0, b["copies"])), "via": draw(st.sampled_from(["attr", "set_bc"])),
                              "sel": draw(st.lists(st.integers(0, 999), min_size=1, max_size=4)),
                              "label": draw(st.sampled_from(LABELS))})
    return b


@st.composite
def _spec(draw, tier):
    src = draw(st.sampled_from(["grid", "grid", "grid", "mdg", "mdg", "split"]))
    s = {"src": src}
    if src == "split":
        # history on the SAME grid objects: conditions built on the intact Cartesian host / fracture grids, then the
        # grids are assembled into an md-grid (faces split in place, new internal boundaries), then conditions again
        from ..gen.grids_extra import frac_spec

        s["frac"] = draw(frac_spec())
        s["bcs_before"] = draw(st.lists(_bc("mdg"), min_size=1, max_size=3))
        s["bcs"] = draw(st.lists(_bc("mdg"), min_size=2, max_size=5))
    elif src == "grid":
        # geometry is irrelevant for the flags: no perturbation / embedding, topology only
        s["grid"] = draw(grid_spec(perturb=False, rigid=False, affine=False,
                                   max_n=4 if tier == "quick" else 6, max_n3=3))
        s["bcs"] = draw(st.lists(_bc(src), min_size=1, max_size=3))
    else:
        s["mdg"] = draw(mdg_spec(phys=False, max_fracs=3))
        s["bcs"] = draw(st.lists(_bc(src), min_size=2, max_size=6))
    return s


def strategy(tier):
    return _spec(tier)


def warmup():
    """Build one 2-d and one 3-d fractured md-grid (numba kernels of the splitting) before the clock starts."""
    f2 = [{"ax": 0, "pos": 1, "lo": [0], "hi": [2]}, {"ax": 1, "pos": 1, "lo": [0], "hi": [2]}]
    f3 = [{"ax": 0, "pos": 1, "lo": [0, 0], "hi": [2, 2]}, {"ax": 1, "pos": 1, "lo": [0, 0], "hi": [2, 2]}]
    for s in ({"dim": 2, "n": [2, 2], "fracs": f2, "phys": None}, {"dim": 3, "n": [2, 2, 2], "fracs": f3, "phys": None}):
        build_mdg(s)
    build_grid({"kind": "polyx", "dim": 3, "n": [2, 1], "phys": [1.0, 1.0], "split": [1, 0], "merge": [False, False],
                "orient": "loops", "layers": [1.0], "pamp": 0.0, "pseed": 0, "affine": None, "rigid": None},
               compute_geometry=False)


# ----------------------------------------------------------------------------- resolution
_cache = {"key": None, "val": None}


def _grids(spec):
    """Grids of the spec (cached for the last spec: the KNOWN predicate and check share it)."""
    key = canon(spec.get("grid") or spec.get("mdg"))
    if _cache["key"] != key:
        if spec["src"] == "grid":
            sds, mdg = [build_grid(spec["grid"], compute_geometry=False)], None
        else:
            mdg = build_mdg(spec["mdg"])
            sds = list(mdg.subdomains())
        _cache.update(key=key, val=(sds, mdg))
    return _cache["val"]


def _boundary(g):
    """Faces with exactly one neighbouring cell, from the incidence matrix alone."""
    if g.num_faces == 0:
        return np.zeros(0, dtype=int)
    cnt = np.asarray(abs(g.cell_faces).sum(axis=1)).ravel()
    return np.flatnonzero(cnt == 1)


def _resolve_call(c, B):
    """(faces list in the order handed over, labels per face) for one call."""
    if c["form"] == "none" or c["who"] == "empty" or B.size == 0:
        pos = []
    elif c["who"] == "all":
        pos = list(range(B.size))
        if c["sel"]:  # index arrays need not be sorted: rotate / reverse
            k = c["sel"][0] % B.size
            pos = pos[k:] + pos[:k]
            if c["sel"][0] % 2:
                pos.reverse()
    else:
        pos = []
        for u in c["sel"]:
            p = u % B.size
            if p not in pos:
                pos.append(p)
    if c["form"] == "mask":
        pos = sorted(pos)
    faces = [int(B[p]) for p in pos]
    cond = c["cond"]
    if isinstance(cond, str):
        labs = [cond] * len(faces)
    else:
        labs = [cond[k % len(cond)] for k in range(len(faces))]
    return faces, labs


def _resolve_bc(b, sds):
    g = sds[b["sd"] % len(sds)]
    cls = b["cls"] if g.dim >= 2 else "scalar"
    calls = b["calls"] if cls == "vector" else b["calls"][:1]
    B = _boundary(g)
    return g, cls, B, [(c,) + _resolve_call(c, B) for c in calls]


def _rob_then_dir(spec):
    """Vectorial object in which some face is given 'rob' and afterwards 'dir'."""
    if not any(b["cls"] == "vector" and len(b["calls"]) > 1 and not b["bad"] for b in spec["bcs"]):
        return False
    sds, _ = _grids(spec)
    for b in spec["bcs"]:
        if b["bad"]:
            continue
        g, cls, B, calls = _resolve_bc(b, sds)
        if cls != "vector":
            continue
        rob = set()
        for _, faces, labs in calls:
            for f, l in zip(faces, labs):
                if l == "dir" and f in rob:
                    return True
            rob.update(f for f, l in zip(faces, labs) if l == "rob")
    return False


def _copy_then_write(spec):
    """A boundary condition object is copied and one of the objects is re-assigned afterwards."""
    return any(b.get("copies") and b.get("hist") and not b["bad"] for b in spec["bcs"])


KNOWN = {"C39-vectorial-set-bc-dir-keeps-robin": _rob_then_dir, "C39-bc-copy-is-shallow": _copy_then_write}


# ----------------------------------------------------------------------------- check
def _args(c, faces, labs, g):
    """Constructor / set_bc arguments for a resolved call."""
    if c["form"] == "none":
        return None, None
    if c["form"] == "mask":
        fa = np.zeros(g.num_faces, dtype=bool)
        fa[faces] = True
    else:
        fa = np.array(faces, dtype=int)
    cs = _CASE[c["case"]]
    if isinstance(c["cond"], str):
        cond = cs(c["cond"])
    else:
        cond = [cs(l) for l in labs]
    return fa, cond


def _expect_value_error(fn, tag, what):
    try:
        fn()
    except ValueError:
        return
    raise Violation(tag, f"{what}: no ValueError raised")


def _check_bad(pp, b, g, cls, B, labels):
    klass = pp.BoundaryCondition if cls == "scalar" else pp.BoundaryConditionVectorial
    kind = b["bad"]
    interior = np.setdiff1d(np.arange(g.num_faces), B)
    c = b["calls"][0]
    form = c["form"] if c["form"] != "none" else "index"
    if kind == "interior":
        if interior.size == 0:
            return
        f_int = int(interior[(c["sel"] or [0])[0] % interior.size])
        faces = [int(B[u % B.size]) for u in c["sel"][1:3]] if B.size else []
        faces = list(dict.fromkeys(faces + [f_int]))
        if form == "mask":
            fa = np.zeros(g.num_faces, dtype=bool)
            fa[faces] = True
        else:
            fa = np.array(faces, dtype=int)
        labels.append("bad-interior")
        _expect_value_error(lambda: klass(g, fa, "dir"), "interior-face-accepted",
                            f"{cls}: condition on interior face {f_int} of grid with {g.num_faces} faces ({form})")
    elif kind == "masksize":
        labels.append("bad-masksize")
        fa = np.zeros(g.num_faces + 1, dtype=bool)
        _expect_value_error(lambda: klass(g, fa, "dir"), "mask-size-accepted", f"{cls}: mask of size num_faces+1")
    elif kind == "ncond":
        if B.size == 0:
            return
        labels.append("bad-ncond")
        fa = np.array([int(B[0])], dtype=int)
        _expect_value_error(lambda: klass(g, fa, ["dir", "neu"]), "label-count-accepted",
                            f"{cls}: 1 face, 2 labels")
    elif kind == "keyword":
        if B.size == 0:
            return
        labels.append("bad-keyword")
        fa = np.array([int(B[0])], dtype=int)
        _expect_value_error(lambda: klass(g, fa, "dirichlet"), "keyword-accepted", f"{cls}: label 'dirichlet'")


def _check_bc(pp, b, sds, labels):
    g, cls, B, calls = _resolve_bc(b, sds)
    nf = g.num_faces
    labels.extend([f"cls-{cls}", f"dim{g.dim}"])
    frac = np.asarray(g.tags["fracture_faces"], dtype=bool)
    if frac.any():
        labels.append("has-fracture-faces")
    if np.asarray(g.tags["tip_faces"], dtype=bool).any():
        labels.append("has-tip-faces")
    if B.size == 0:
        labels.append("no-boundary-faces")
    if b["bad"]:
        _check_bad(pp, b, g, cls, B, labels)
        return False

    # ---- run the code under test
    obj = None
    mentions = {}
    for k, (c, faces, labs) in enumerate(calls):
        fa, cond = _args(c, faces, labs, g)
        labels.append(f"form-{c['form']}")
        if c["form"] != "none":
            labels.append(f"who-{c['who'] if faces else 'empty'}")
            labels.append("cond-str" if isinstance(c["cond"], str) else "cond-list")
        if k == 0:
            obj = (pp.BoundaryCondition if cls == "scalar" else pp.BoundaryConditionVectorial)(g, fa, cond)
        else:
            obj.set_bc(fa, cond)
        for f, l in zip(faces, labs):
            mentions.setdefault(f, []).append(l)
            labels.append(f"label-{l}")
            if frac[f]:
                labels.append("assigned-fracture-face")
    if any(len(v) > 1 for v in mentions.values()):
        labels.append("reassign")

    # ---- reference, face by face
    rows = 1 if cls == "scalar" else g.dim
    shape = (nf,) if cls == "scalar" else (g.dim, nf)
    flags = {"dir": np.asarray(obj.is_dir), "neu": np.asarray(obj.is_neu), "rob": np.asarray(obj.is_rob)}
    for nm, a in flags.items():
        require(a.shape == shape and a.dtype == bool, "flag-shape",
                f"{cls}: is_{nm} has shape {a.shape} dtype {a.dtype}, expected bool {shape}")
    F = {nm: a.reshape(rows, nf) for nm, a in flags.items()}
    isB = np.zeros(nf, dtype=bool)
    isB[B] = True
    what = f"{cls} bc on dim-{g.dim} grid with {nf} faces"
    for f in range(nf):
        got = [tuple(nm for nm in LABELS if F[nm][r, f]) for r in range(rows)]
        if not isB[f]:
            require(all(t == () for t in got), "interior-face-has-condition", f"{what}: interior face {f} carries {got}")
            continue
        m = mentions.get(f, [])
        if len(m) == 0:
            require(all(t == ("neu",) for t in got), "unassigned-not-neumann",
                    f"{what}: boundary face {f} never mentioned carries {got}")
        elif len(m) == 1:
            require(all(t == (m[0],) for t in got), "assigned-type-wrong",
                    f"{what}: boundary face {f} assigned {m[0]!r} carries {got}")
        else:
            require(all(len(t) == 1 for t in got), "not-exactly-one-type",
                    f"{what}: boundary face {f} assigned {m} in turn carries {got}")
    require_equal(np.sort(np.asarray(obj.bf)), B, "bf-attribute", f"{what}: bf is not the set of boundary faces")
    require_equal(np.asarray(obj.is_internal, dtype=bool), frac, "is-internal-attribute", what)
    require(obj.num_faces == nf, "num-faces-attribute", what)

    # ---- internal_to_dirichlet as used by the models: fracture faces still at their default
    if b["i2d"] and cls == "vector" and frac.any() and not any(frac[f] for f in mentions):
        labels.append("i2d")
        before = {nm: F[nm].copy() for nm in LABELS}
        obj.internal_to_dirichlet(g)
        for nm in LABELS:
            a = np.asarray(getattr(obj, "is_" + nm)).reshape(rows, nf)
            exp = before[nm].copy()
            exp[:, frac] = nm == "dir"
            require_equal(a, exp, "internal-to-dirichlet",
                          f"{what}: is_{nm} after internal_to_dirichlet (fracture faces must be Dirichlet only, "
                          "other faces unchanged)")
    if b.get("copies"):
        _copy_history(b, obj, g, cls, B, rows, nf, what, labels)
    return B.size > 0 and len(mentions) > 0


def _copy_history(b, obj, g, cls, B, rows, nf, what, labels):
    """copy() (docstring: deep copy, all attributes copied), copy of the copy, then re-assignments on any of the
    objects: every object must keep the state of its own history (reference: flags at copy time + own writes)."""
    labels.append("copy-history")
    objs = [obj]
    for _ in range(b["copies"]):
        objs.append(objs[-1].copy())
    if b["copies"] > 1:
        labels.append("copy-of-copy")

    def flags(o):
        return {nm: np.asarray(getattr(o, "is_" + nm)).reshape(rows, nf).copy() for nm in LABELS}

    model = [flags(obj) for _ in objs]          # the main oracle has verified the original
    loose = [np.zeros(nf, dtype=bool) for _ in objs]  # faces where only 'exactly one type' is demanded

    def compare(step):
        for i, o in enumerate(objs):
            name = "original" if i == 0 else ("copy" if i == 1 else "copy of the copy")
            require(o.num_faces == nf and np.array_equal(np.sort(np.asarray(o.bf)), B), "copy-attributes",
                    f"{what}: {name}: num_faces / bf differ from the original")
            got = flags(o)
            for nm in LABELS:
                strict = ~loose[i]
                require(np.array_equal(got[nm][:, strict], model[i][nm][:, strict]), "copy-not-independent",
                        f"{what}: after {step}, is_{nm} of the {name} is {got[nm][:, strict].astype(int).tolist()}, "
                        f"its own history gives {model[i][nm][:, strict].astype(int).tolist()}")
            cnt = sum(got[nm].astype(int) for nm in LABELS)
            require(np.all(cnt[:, B] == 1) and np.all(np.delete(cnt, B, axis=1) == 0), "copy-partition",
                    f"{what}: after {step}, the {name} does not carry exactly one type per boundary face and component")

    compare("copy()")
    for n, op in enumerate(b["hist"]):
        if B.size == 0:
            break
        labels.append("copy-history-write")
        i = op["on"]
        o = objs[i]
        faces = sorted({int(B[u % B.size]) for u in op["sel"]})
        fa = np.array(faces, dtype=int)
        lab = op["label"]
        if op["via"] == "set_bc" and hasattr(o, "set_bc"):
            labels.append("copy-write-set_bc")
            o.set_bc(fa, lab)
            if lab == "neu":  # 'neu' through set_bc leaves an earlier dir / rob in place: only the partition is demanded
                loose[i][fa] = True
                continue_model = False
            else:
                continue_model = True
        else:
            labels.append("copy-write-attr")
            for nm in LABELS:  # documented attribute access
                getattr(o, "is_" + nm)[..., fa] = nm == lab
            continue_model = True
        if continue_model:
            for nm in LABELS:
                model[i][nm][:, fa] = nm == lab
            loose[i][fa] = False
        compare(f"write #{n} ({lab!r} on faces {faces} of object {i} via {op['via']})")


def check(spec):
    import porepy as pp

    if spec["src"] == "split":
        from porepy.fracs import structured

        from ..gen.grids_extra import fracture_arrays

        fs = spec["frac"]
        make = structured._cart_grid_2d if fs["dim"] == 2 else structured._cart_grid_3d
        grids = make(fracture_arrays(fs), np.array(fs["nx"]), physdims=np.array(fs["phys"], dtype=float))
        objs = [g for lst in grids for g in lst]
        labels = ["src-split"]
        nontrivial = False
        for b in spec["bcs_before"]:
            _check_bc(pp, b, objs, labels)
        nf0 = [g.num_faces for g in objs]
        pp.meshing.subdomains_to_mdg(grids)  # splits faces and nodes of the very same objects
        if any(g.num_faces != n for g, n in zip(objs, nf0)):
            labels.append("split-faces-after-first-conditions")
        for b in spec["bcs"]:
            nontrivial = _check_bc(pp, b, objs, labels) or nontrivial
        return {"labels": sorted(set(labels)), "nontrivial": bool(nontrivial)}
    sds, mdg = _grids(spec)
    labels = [f"src-{spec['src']}"]
    if spec["src"] == "grid":
        labels.extend(l for l in grid_meta(spec["grid"])["labels"] if l.startswith("kind-") or l == "poly-mixed")
    else:
        labels.extend(mdg_labels(spec["mdg"], mdg))
    if not sds:
        raise HarnessError("no grids")
    nontrivial = False
    for b in spec["bcs"]:
        nontrivial = _check_bc(pp, b, sds, labels) or nontrivial
    return {"labels": sorted(set(labels)), "nontrivial": bool(nontrivial)}
