"""C46 SparseNdArray behaves like a dictionary of coordinates.

Spec = a history: {"dim", "vdim", "ops": [op, ...]} with
    op = {"op": "add", "coords": [[int]*dim, ...], "values": [[int]*n]*vdim, "additive": bool, "flat": bool}
       | {"op": "get", "coords": [[int]*dim, ...]}
The history is interpreted twice: against porepy.array_operations.SparseNdArray and against a
plain Python dict (sequential last-wins / sum semantics, as the docstring of ``add`` states).
After every ``add`` all keys of the model are read back; ``get`` ops read drawn coordinates
(present, absent, repeated)."""
from __future__ import annotations

import numpy as np
from hypothesis import strategies as st

from ..core import Violation, require, require_equal

ID = "C46"
RULE = (
    "Hypothesis draws a history of 1..8 operations on one SparseNdArray(dim 1..3, value_dim 1..2): "
    "add(coords, values, additive) with batches of 0..5 integer coordinates from a box of side 2..4 per axis "
    "(negative coordinates included; duplicates inside and across batches are therefore frequent), integer "
    "values in [-9, 9] or quarters of them (sums exact in float64), given as (value_dim, n) array or flat 1-d array "
    "when value_dim = 1, of dtype float64 / int64 / int32 / float32 or as (nested) python list, dtypes mixed across "
    "the batches of one history (integer first batch followed by fractional writes and vice versa); coordinate "
    "arrays int64 or int32; get(coords) with 1..4 coordinates from the same box (present, absent, repeated). Oracle: "
    "a Python dict updated sequentially (overwrite: last occurrence wins; additive: sum); after every add all "
    "model keys are read back and compared exactly; a get containing a never-inserted coordinate must raise "
    "ValueError. Non-trivial = history with at least one add that hits an already stored coordinate or has a "
    "duplicate inside the batch; distinct = hash of spec."
)
BUDGET = {"quick": {"cases": 4000, "seconds": 40}, "thorough": {"cases": 150000, "seconds": 1100}}
TECHNIQUE = "property-based testing (Hypothesis): model-based test of operation histories against a Python dict"
LEVEL_TEXT = ("Exploration: thousands of generated add/get histories per run, each interpreted against the real "
              "class and against a dict model with the documented overwrite / additive semantics; every stored key "
              "is read back after every insertion; duplicate coordinates inside and across batches, updates of "
              "several stored coordinates in one batch, vector values and absent-key reads are forced by the "
              "generator and their frequencies are reported.")
LEVEL_NOTE = ("Histories of at most 8 operations, batches of at most 5 coordinates, dimension <= 3, value dimension "
              "<= 2, integer values. The return value of add (permutation of newly stored points) is not part of "
              "the property and is not checked. Finds violations, does not prove absence.")
DESIGN_REF = "DESIGN.md section 4, C46"
ASSUMPTIONS = [
    "coordinates are integer arrays of length dim (the documented input form)",
    "values are integers or quarters (exact in float32 / float64) so that additive accumulation is exact",
    "the docstring promises no dtype for stored values: the model holds the value written (float64), a later fractional write is not truncated",
    "get is never called with an empty coordinate list (not a documented use)",
]
REQUIRED = {
    "additive": 0.2, "overwrite": 0.2, "dup-in-batch": 0.15, "update-existing": 0.3,
    "update-existing-multi": 0.05, "get-absent": 0.1, "get-present": 0.1, "vdim2": 0.15,
    "dim1": 0.15, "dim2": 0.15, "dim3": 0.15, "batch>=3-new": 0.05,
    "values-int-first": 0.1, "values-int-first-overwrite-nodup": 0.03, "values-mixed-dtypes": 0.3,
    "values-fractional": 0.15, "values-fractional-after-int-first": 0.05, "values-int64": 0.1, "values-int32": 0.05,
    "values-float32": 0.05, "values-list": 0.05, "values-2d-array": 0.3, "coords-int32": 0.1,
}


# ----------------------------------------------------------------------------- strategy
@st.composite
def _history(draw, tier):
    dim = draw(st.integers(1, 3))
    vdim = draw(st.sampled_from([1, 1, 2]))
    lo = draw(st.sampled_from([-2, 0, 7]))
    # small box -> many collisions; 1-d boxes are a bit longer so that batches of distinct points exist
    side = [draw(st.integers(2, 4)) if dim > 1 else draw(st.integers(3, 6)) for _ in range(dim)]
    coord = st.tuples(*[st.integers(lo, lo + s - 1) for s in side]).map(list)
    max_ops = 8 if tier == "quick" else 12
    nops = draw(st.integers(1, max_ops))
    ops = []
    for k in range(nops):
        kind = "add" if k == 0 else draw(st.sampled_from(["add", "add", "add", "get"]))
        if kind == "add":
            n = draw(st.sampled_from([0, 1, 1, 2, 2, 3, 3, 4, 5]))
            cs = draw(st.lists(coord, min_size=n, max_size=n))
            vals = [draw(st.lists(st.integers(-9, 9), min_size=n, max_size=n)) for _ in range(vdim)]
            vdtype = draw(st.sampled_from(["float64", "float64", "int64", "int64", "int32", "float32", "list"]))
            den = 1 if vdtype in ("int64", "int32") else draw(st.sampled_from([1, 1, 4, 4]))
            ops.append({"op": "add", "coords": cs, "values": vals, "additive": draw(st.booleans()),
                        "flat": vdim == 1 and draw(st.booleans()), "vdtype": vdtype, "den": den})
        else:
            ops.append({"op": "get", "coords": draw(st.lists(coord, min_size=1, max_size=4))})
    return {"dim": dim, "vdim": vdim, "ops": ops, "cdtype": draw(st.sampled_from(["int64", "int64", "int32"]))}


def strategy(tier):
    return _history(tier)


# ----------------------------------------------------------------------------- model of the storage order
def _storage_trace(spec):
    """Yield (op, stored_before) for every add: stored_before is the list of distinct coordinates in
    the order SparseNdArray keeps them (new coordinates of a batch are appended in lexicographic
    order, which is what np.unique(axis=1) produces)."""
    stored = []
    seen = set()
    for op in spec["ops"]:
        if op["op"] != "add":
            continue
        yield op, list(stored)
        new = sorted({tuple(c) for c in op["coords"]} - seen)
        stored.extend(new)
        seen.update(new)


def _known_batch_update_permuted(spec) -> bool:
    """add() that hits >= 2 distinct already-stored coordinates whose storage order differs from
    their lexicographic order (values are paired with np.unique'd storage indices)."""
    for op, stored in _storage_trace(spec):
        pos = {c: i for i, c in enumerate(stored)}
        hit = sorted({tuple(c) for c in op["coords"]} & set(pos))
        if len(hit) >= 2 and [pos[c] for c in hit] != sorted(pos[c] for c in hit):
            return True
    return False


def _known_overwrite_new_batch_permuted(spec) -> bool:
    """overwrite-mode add() of a batch without duplicates whose order is a permutation p (relative to
    lexicographic order) with p != p^-1: values are mapped with the inverse permutation."""
    for op in spec["ops"]:
        if op["op"] != "add" or op["additive"]:
            continue
        cs = [tuple(c) for c in op["coords"]]
        if len(cs) < 3 or len(set(cs)) != len(cs):
            continue
        srt = sorted(cs)
        p = [srt.index(c) for c in cs]  # all_2_unique
        if any(p[p[i]] != i for i in range(len(p))):
            return True
    return False


KNOWN = {
    "C46-add-batch-update-existing-permuted": _known_batch_update_permuted,
    "C46-add-overwrite-batch-inverse-permutation": _known_overwrite_new_batch_permuted,
}


# ----------------------------------------------------------------------------- check
def _values_arg(op, vals):
    """The `values` argument as the caller would pass it: (vdim, n) or flat (n,) array of the drawn dtype, or a
    (nested) python list.  `vals` is the float64 (vdim, n) array of the values written (integers / den)."""
    vd = op.get("vdtype", "float64")
    v = vals[0] if op["flat"] else vals
    if vd == "list":
        out = v.tolist()
        if op.get("den", 1) == 1:  # integer-valued python ints
            out = [int(x) for x in out] if op["flat"] else [[int(x) for x in row] for row in out]
        return out
    return v.astype({"float64": np.float64, "float32": np.float32, "int64": np.int64, "int32": np.int32}[vd])


def _as_coords(cs, cdtype="int64"):
    return [np.array(c, dtype=np.int32 if cdtype == "int32" else np.int64) for c in cs]


def check(spec):
    import porepy as pp

    dim, vdim = spec["dim"], spec["vdim"]
    arr = pp.array_operations.SparseNdArray(dim, value_dim=vdim)
    model: dict = {}
    labels = {f"dim{dim}"}
    if vdim == 2:
        labels.add("vdim2")
    nontrivial = False
    cdt = spec.get("cdtype", "int64")
    labels.add("coords-" + cdt)
    first_int = None
    seen_dtypes = set()

    def read_all(step):
        if not model:
            return
        keys = sorted(model)
        got = arr.get(_as_coords(keys, cdt))
        exp = np.array([model[k] for k in keys], dtype=float).T.reshape(vdim, len(keys))
        if np.asarray(got).shape != exp.shape or not np.array_equal(got, exp):
            bad = [k for i, k in enumerate(keys)
                   if np.asarray(got).shape != exp.shape or not np.array_equal(np.asarray(got)[:, i], exp[:, i])]
            raise Violation("get-differs-from-dict",
                            f"after op {step} ({spec['ops'][step]}): keys {bad[:4]} read "
                            f"{np.asarray(got).tolist()} but the dict model holds {exp.tolist()} for keys {keys}")

    for step, op in enumerate(spec["ops"]):
        cs = [tuple(c) for c in op["coords"]]
        if op["op"] == "add":
            n = len(cs)
            vals = np.array(op["values"], dtype=float).reshape(vdim, n) / float(op.get("den", 1))
            vd = op.get("vdtype", "float64")
            labels.add("values-" + vd)
            is_int = vd in ("int64", "int32") or (vd == "list" and op.get("den", 1) == 1)
            if n:
                if first_int is None:
                    first_int = is_int
                    if is_int:
                        labels.add("values-int-first")
                        if not op["additive"] and len(set(cs)) == n:
                            labels.add("values-int-first-overwrite-nodup")
                seen_dtypes.add(vd)
                if len(seen_dtypes) >= 2:
                    labels.add("values-mixed-dtypes")
                if op.get("den", 1) != 1 and np.any(vals != np.round(vals)):
                    labels.add("values-fractional")
                    if first_int:
                        labels.add("values-fractional-after-int-first")
                if not op["flat"]:
                    labels.add("values-2d-array")
            labels.add("additive" if op["additive"] else "overwrite")
            if len(set(cs)) < n:
                labels.add("dup-in-batch")
                nontrivial = True
            hit = set(cs) & set(model)
            if hit:
                labels.add("update-existing")
                nontrivial = True
            if len(hit) >= 2:
                labels.add("update-existing-multi")
            if len(set(cs) - set(model)) >= 3:
                labels.add("batch>=3-new")
            if n == 0:
                labels.add("empty-batch")
            if op["flat"]:
                labels.add("flat-values")
            arr.add(_as_coords(cs, cdt), _values_arg(op, vals), additive=op["additive"])
            for i, c in enumerate(cs):
                if op["additive"] and c in model:
                    model[c] = [a + b for a, b in zip(model[c], vals[:, i].tolist())]
                else:
                    model[c] = vals[:, i].tolist()
            read_all(step)
        elif op["op"] == "get":
            absent = [c for c in cs if c not in model]
            if absent:
                labels.add("get-absent")
                try:
                    got = arr.get(_as_coords(cs, cdt))
                except ValueError:
                    pass
                else:
                    raise Violation("get-absent-no-error",
                                    f"op {step}: get({cs}) with never-inserted {absent} returned "
                                    f"{np.asarray(got).tolist()} instead of raising ValueError")
            else:
                labels.add("get-present")
                if len(set(cs)) < len(cs):
                    labels.add("get-repeated")
                got = arr.get(_as_coords(cs, cdt))
                exp = np.array([model[c] for c in cs], dtype=float).T.reshape(vdim, len(cs))
                require(np.asarray(got).shape == exp.shape, "get-shape",
                        f"op {step}: get({cs}) has shape {np.asarray(got).shape}, expected {exp.shape}")
                require_equal(got, exp, "get-differs-from-dict", f"op {step}: get({cs})")
        else:
            raise Violation("unknown-op", str(op))
    return {"labels": sorted(labels), "nontrivial": nontrivial}
