"""C28 Segment intersection agrees with exact rational arithmetic.

Spec: {"dim": 2|3, "s1": [[a...],[b...]], "s2": [[c...],[d...]], "gen": <generator class>}
with integer coordinates.  ``pp.intersections.segments_2d`` / ``segments_3d`` are called
for all 8 presentations of the pair (argument order x orientation of each segment) and
every answer is compared with the exact intersection computed with Fractions."""
from __future__ import annotations

import builtins
import itertools

import numpy as np
from hypothesis import strategies as st

from fractions import Fraction

from ..core import HarnessError, Violation, require
from ..gen import exactgeom as eg
from ..gen.digits import Digits, big_int

ID = "C28"
RULE = (
    "Two non-degenerate segments with integer coordinates (|x| <= ~40, box radius R in 2..4 plus constructed "
    "points) in 2-d or 3-d, built by construction in the classes random / parallel / collinear (disjoint, "
    "touching, overlapping, contained, identical) / T- and endpoint-touching / crossing in a lattice point / "
    "crossing in a non-lattice rational point / near miss (lines meet, segments do not) / (3-d) skew / long-overlap "
    "(a segment of 1e3..1e5 lattice steps and a short collinear one overlapping it in 0..30 steps, i.e. overlap/length "
    "1e-5..3e-2 or exactly 0, at either end, inside, or disjoint). One case in three is mapped by an exact similarity "
    "x -> (num/den)*x + off (2-d: factors 1/8192, 1/128, 1, 10, 1e3, 1e5, integer offsets up to 6.7e6; 3-d: factors "
    "1..1e4 and offsets with |coordinate| <= 1e6, because segments_3d uses an absolute 1e-8); every transformed "
    "coordinate is exactly representable, so all degeneracies stay exact. Oracle = "
    "exact intersection of the closed segments with fractions.Fraction: none | point | segment. segments_2d / "
    "segments_3d are evaluated for all 8 presentations (swap arguments, reverse either segment) and must give "
    "None / one column equal to the point / two columns equal as a set to the end points of the common segment "
    "(lattice class: 1e-9 absolute + relative; transformed / long class: 64 eps * max|coordinate| + 1e-12 * extent). "
    "Thorough tier: exhaustive enumeration of all unordered pairs of lattice segments in [-2,2]^2, [-1,1]^3, [-3,3]^2 "
    "and [-1,2]^3, of the first two boxes under 3 resp. 2 of the similarity transforms, and of all long-overlap "
    "configurations along the primitive directions of [-1,1]^d (3.29 million pairs). Non-trivial = the supporting lines are coplanar "
    "(every 2-d pair; in 3-d: parallel, or meeting lines); distinct = hash of spec."
)
BUDGET = {"quick": {"cases": 40000, "seconds": 35}, "thorough": {"cases": 3000000, "seconds": 1100}}
TECHNIQUE = ("property-based testing (Hypothesis) with constructed degeneracy classes, differential against exact "
             "rational arithmetic; exhaustive enumeration of small lattice boxes in the thorough tier")
LEVEL_TEXT = ("Exploration (quick): tens of thousands of integer segment pairs per run with every degeneracy class "
              "forced by construction, each checked in all 8 presentations against an exact Fraction oracle. "
              "Thorough: exhaustive over all pairs of lattice segments in [-2,2]^2, [-1,1]^3, [-3,3]^2 and [-1,2]^3.")
LEVEL_NOTE = ("Integer coordinates, or exact similarity images of them (exactly representable floats), so every degeneracy "
              "is exact or at least 1e-5 (relative) away from the functions' 1e-8 tolerances - in particular a collinear "
              "overlap is either exactly a point or at least 1000 x tol * length long; behaviour inside the tolerance "
              "band is not examined. Zero-length segments are not "
              "generated. In 3-d a two-column result with identical columns is accepted for a one-point intersection "
              "of collinear segments (callers treat it as measure zero).")
DESIGN_REF = "DESIGN.md section 4, C28"
ASSUMPTIONS = [
    "integer coordinates passed as float64 arrays (as the callers do) or, class int-dtype-inputs, as int64 / int32 arrays, "
    "python lists (segments_2d only) or mixed int / float arrays; float32 is not generated (segments_3d would compute in "
    "single precision)",
    "both segments have distinct end points",
    "what counts as a single point vs an overlapping stretch is only asserted for overlaps that are exactly zero or at "
    "least 1e-5 of the longer segment (1000 x the default tol)",
    "segments_3d (absolute tolerance 1e-8) is only given coordinates up to 1e6 and no down-scaled configurations",
    "a (3,2) result with two equal columns counts as the single point (3-d collinear touching)",
]
# One table serves both tiers (the runner has no per-tier REQUIRED): each threshold is about a third of the
# smaller of the two observed frequencies - the quick generator (first number) and the exhaustive
# enumeration, which is dominated by 3-d skew pairs (second number).
REQUIRED = {
    "2d": 0.1,                        # 51 % / 26 %
    "3d": 0.1,                        # 48 % / 74 %
    "kind-none": 0.1,                 # 37 % / 85 %
    "kind-point": 0.05,               # 57 % / 14.5 %
    "kind-segment": 0.001,            # 5.7 % / 0.29 %
    "parallel-noncollinear": 0.008,   # 9.7 % / 2.5 %
    "collinear-disjoint": 0.0001,     # 2.0 % / 0.028 %
    "collinear-touch": 0.00015,       # 4.5 % / 0.05 %
    "endpoint-touch": 0.03,           # 33 % / 8.4 %
    "interior-cross": 0.02,           # 19 % / 6 %
    "3d-skew": 0.02,                  # 8.7 % / 62 %
    "near-miss": 0.02,                # 16 % / 20 %
    "rational-point": 0.015,          # 7.5 % / 5.7 %
    "3d-degenerate-projection": 0.03, # 12 % / 30 %
    "lattice": 0.3,                   # 60 % / 77 %
    "transformed": 0.02,              # 31 % / 7 %
    "scaled-up": 0.01,                # 17 % / 5 %
    "far-offset": 0.01,               # 23 % / 5 %
    "long-segment-short-overlap": 0.01,  # 6 % / 9 %
    "int-dtype-inputs": 0.1,          # 47 % / 29 %
}
ENUMERATE_TIERS = ("thorough",)
_enum = builtins.enumerate  # the contract's `enumerate` below shadows the builtin in this module


# ----------------------------------------------------------------------------- known finding
def _chosen_plane(d1, d2):
    """The coordinate plane segments_3d selects (copied from its selection rule, exact)."""
    m = [(x != 0) or (y != 0) for x, y in zip(d1, d2)]
    if sum(m) > 1:
        if m[0] and m[1]:
            return (0, 1)
        if m[0] and m[2]:
            return (0, 2)
        return (1, 2)
    return (0, 1)


def _proj_parallel(spec) -> bool:
    """3-d pair, not parallel in space, meeting in exactly one point, whose projections on
    the coordinate plane chosen by segments_3d are parallel (zero 2x2 determinant)."""
    if spec["dim"] != 3:
        return False
    a, b = (eg.pt(p) for p in spec["s1"])
    c, d = (eg.pt(p) for p in spec["s2"])
    u, v = eg.sub(b, a), eg.sub(d, c)
    if eg.parallel(u, v):
        return False
    i, j = _chosen_plane(u, v)
    if u[i] * v[j] - u[j] * v[i] != 0:
        return False
    return eg.segment_intersection(a, b, c, d)[0] == "point"


KNOWN = {"C28-segments3d-parallel-projection": _proj_parallel}


# ----------------------------------------------------------------------------- strategies
GENS = ["random", "random", "parallel", "collinear", "touch", "cross", "cross", "cross-rational", "cross-rational",
        "near-miss", "shared-endpoint", "long-overlap"]


def _add(p, v, k=1):
    return [x + k * y for x, y in zip(p, v)]


def _unparallel(u, v, j):
    """Deterministic repair used by the generators: if v is parallel to u, add a unit
    vector (along axis j, or the next axis if u itself points along axis j)."""
    if all(u[i] * v[k] == u[k] * v[i] for i in range(len(u)) for k in range(i + 1, len(u))):
        if all(x == 0 for i, x in _enum(u) if i != j):
            j = (j + 1) % len(u)
        v = list(v)
        v[j] += 1
    return v


def build(gen, dim, R, n):
    """Deterministic construction of a pair of non-degenerate integer segments of class
    `gen` from the digits of the integer n (see gen/digits.py)."""
    D = Digits(n)
    P = lambda: D.vec(dim, R)  # noqa: E731
    # accidental parallelism is allowed once in four; otherwise the second direction is repaired
    fix = D.below(4) > 0
    ax = D.below(dim)
    if gen == "random":
        a = P()
        b = _add(a, D.vec(dim, R, True))
        c = P()
        d = _add(c, D.vec(dim, R, True))
    elif gen == "parallel":
        u = D.vec(dim, 2, True)
        a, c = P(), P()
        b = _add(a, u, D.int(1, 3))
        d = _add(c, u, D.choice([-3, -2, -1, 1, 2, 3]))
    elif gen == "collinear":
        o, u = P(), D.vec(dim, 2, True)
        t = [D.int(-4, 4) for _ in range(4)]
        if t[0] == t[1]:
            t[1] += 1
        if t[2] == t[3]:
            t[3] -= 1
        if D.below(3) == 0:
            # end-to-end: the second segment starts at an end of the first and points away from it
            t[2] = t[1]
            t[3] = t[1] + (1 if t[1] > t[0] else -1) * D.int(1, 3)
        a, b, c, d = (_add(o, u, k) for k in t)
    elif gen == "touch":
        # an end point of the second segment lies on the first (T-junction / end-to-end)
        a, u = P(), D.vec(dim, 2, True)
        k = D.int(1, 4)
        b = _add(a, u, k)
        c = _add(a, u, D.int(0, k))
        v = D.vec(dim, R, True)
        d = _add(c, _unparallel(u, v, ax) if fix else v)
    elif gen == "cross":
        # both segments pass through the lattice point o (possibly ending there)
        o, u, v = P(), D.vec(dim, 2, True), D.vec(dim, 2, True)
        if dim == 3 and D.below(3) == 0:
            # directions whose projections on one coordinate plane are parallel (or vanish)
            # although the segments are not: exercises the choice of the projection plane
            m = D.int(-2, 2)
            v = [m * x for x in u]
            v[ax] += D.choice([1, -1, 2, -2])
            fix = True
        if fix:
            v = _unparallel(u, v, ax)
        i, j, k, l = D.int(0, 3), D.int(0, 3), D.int(0, 3), D.int(0, 3)
        if D.bool():  # proper crossing in the interior of both
            i, j, k, l = max(i, 1), max(j, 1), max(k, 1), max(l, 1)
        if i + j == 0:
            j = 1
        if k + l == 0:
            k = 1
        a, b, c, d = _add(o, u, -i), _add(o, u, j), _add(o, v, -k), _add(o, v, l)
    elif gen in ("cross-rational", "near-miss"):
        # x = a + (p/q)(b-a) is a rational, generally non-lattice, point of the first segment;
        # the second line passes through x; the second segment contains x or stops short of it.
        a = P()
        b = _add(a, D.vec(dim, R, True))
        q = D.int(2, 4)
        p = D.int(0, q)
        c = P()
        g = [q * (ai - ci) + p * (bi - ai) for ai, bi, ci in zip(a, b, c)]  # q (x - c)
        if not any(g):
            g = [1] * dim  # c == x: any direction touches
        if gen == "cross-rational":
            d = _add(c, g, D.int(1, 2))
        else:
            d = _add(c, g, -D.int(1, 2))  # pointing away from x: lines meet, segments don't
    elif gen == "long-overlap":
        # a long segment [0, L] u and a short collinear one that overlaps it in a stretch of k << L lattice steps
        # (k / L between 1e-5 and 3e-2, i.e. at least 1000 x the functions' 1e-8), touches it in one point (k = 0),
        # or misses it: at the far end, at the start, or inside
        o, u = P(), D.vec(dim, 2, True)
        L = D.choice([1000, 10000, 100000])
        k = D.int(0, 30)
        e = D.int(0, 30)
        where = D.below(4)
        if where == 0:
            t = [0, L, L - k, L + e + (1 if k + e == 0 else 0)]      # overlaps [L-k, L]; k = 0: end-to-end
        elif where == 1:
            t = [0, L, -e - (1 if k + e == 0 else 0), k]             # overlaps [0, k]
        elif where == 2:
            c0 = D.int(1, 9) * (L // 10)
            t = [0, L, c0, c0 + max(k, 1)]                           # short segment inside the long one
        else:
            t = [0, L, L + 1 + k, L + 2 + k + e]                     # collinear, disjoint by k + 1 steps
        if D.bool():
            t[2], t[3] = t[3], t[2]
        a, b, c, d = (_add(o, u, j) for j in t)
    else:  # shared-endpoint
        a, u, v = P(), D.vec(dim, R, True), D.vec(dim, R, True)
        b = _add(a, u)
        c = list(D.choice([a, b]))
        d = _add(c, _unparallel(u, v, ax) if fix else v)
    if D.bool():
        a, b, c, d = c, d, a, b
    return {"dim": dim, "s1": [a, b], "s2": [c, d], "gen": gen}


# Exact similarity transforms x -> (num/den) * x + off of the integer configuration: num/den is an integer or a
# negative power of two and off an integer vector, so every transformed coordinate is exactly representable and all
# degeneracies of the lattice configuration (touching, collinear, parallel, concurrent) stay exact.
OFFVEC = [5123457, 6712345, -1234568]  # * m / 1e7
TF_2D = [(sc, m) for sc in ((1, 8192), (1, 128), (1, 1), (10, 1), (1000, 1), (100000, 1)) for m in (0, 1000, 100000, 10000000)
         if not (sc == (1, 1) and m == 0)]
# segments_3d compares coordinates with an absolute 1e-8: only |coordinate| <= 1e6 (rounding of an intersection
# point <= 1e-9) and no down-scaling
TF_3D = [(sc, m) for sc in ((1, 1), (10, 1), (1000, 1), (10000, 1)) for m in (0, 1000, 100000, 500000)
         if not (sc == (1, 1) and m == 0) and 45 * sc[0] + m <= 1000000]


DTYPES = [None, None, "int64", "int32", "list", "mixed"]


def build_tf(gen, dim, R, n, tf, dtype=None):
    s = build(gen, dim, R, n)
    if tf is None or gen == "long-overlap":
        if dtype is not None:
            s["dtype"] = dtype  # integer coordinates: how they are handed over (see _as_input)
        return s
    table = TF_2D if dim == 2 else TF_3D
    (num, den), m = table[tf % len(table)]
    off = [c * m // 10000000 for c in OFFVEC]

    def T(p):
        out = []
        for x, o in zip(p, off):
            v = Fraction(x * num, den) + o
            f = float(v)
            if Fraction(f) != v:
                raise HarnessError(f"transformed coordinate {v} is not representable")
            out.append(int(v) if v.denominator == 1 else f)
        return out

    s["s1"] = [T(p) for p in s["s1"]]
    s["s2"] = [T(p) for p in s["s2"]]
    s["tf"] = [num, den, m]
    return s


def strategy(tier):
    return st.builds(build_tf, st.sampled_from(GENS), st.sampled_from([2, 3]), st.sampled_from([2, 3, 4]), big_int(128),
                     st.one_of(st.none(), st.none(), st.integers(0, 10 ** 6)), st.sampled_from(DTYPES))


def _lattice_segments(dim, lo, hi):
    pts = list(itertools.product(range(lo, hi + 1), repeat=dim))
    return [(list(p), list(q)) for i, p in _enum(pts) for q in pts[i + 1:]]


def _apply_tf(spec, dim, num, den, m):
    off = [c * m // 10000000 for c in OFFVEC]

    def T(p):
        out = []
        for x, o in zip(p, off):
            v = Fraction(x * num, den) + o
            out.append(int(v) if v.denominator == 1 else float(v))
        return out

    spec["s1"] = [T(q) for q in spec["s1"]]
    spec["s2"] = [T(q) for q in spec["s2"]]
    spec["tf"] = [num, den, m]
    return spec


def enumerate(tier, shard, nshards):  # noqa: A001 - name fixed by the contract
    """All unordered pairs {s1, s2} (s1 <= s2 in enumeration order, including s1 == s2) of
    unordered lattice segments; the check itself runs the 8 ordered/oriented presentations.
    Order: [-2,2]^2 (45 150 pairs), [-1,1]^3 (61 776); the same two boxes under exact similarity
    transforms (3 x 45 150 and 2 x 61 776); all long-segment / short-overlap configurations
    (L in {1e3, 1e4, 1e5}, overlap and excess 0..30 steps, 4 placements, both orders of the
    short segment, every primitive direction of [-1,1]^d: about 0.8 million); then [-3,3]^2
    (692 076) and [-1,2]^3 (2 033 136)."""
    n = 0

    def boxes(dim, lo, hi, tf=None):
        nonlocal n
        segs = _lattice_segments(dim, lo, hi)
        for i, s1 in _enum(segs):
            n += 1
            if n % nshards != shard:
                continue
            for s2 in segs[i:]:
                spec = {"dim": dim, "s1": [s1[0], s1[1]], "s2": [s2[0], s2[1]], "gen": "enum"}
                if tf is None and (i + len(s2[0]) + s2[0][0] + s2[1][1]) % 3 == 0:
                    spec["dtype"] = ("int64", "int32", "list", "mixed")[(i + s2[1][0]) % 4]
                yield spec if tf is None else _apply_tf(spec, dim, *tf)

    yield from boxes(2, -2, 2)
    yield from boxes(3, -1, 1)
    for tf in ((100000, 1, 0), (1, 8192, 10000000), (1000, 1, 100000)):
        yield from boxes(2, -2, 2, tf)
    for tf in ((10000, 1, 0), (10, 1, 500000)):
        yield from boxes(3, -1, 1, tf)
    for dim in (2, 3):
        dirs = [list(u) for u in itertools.product((-1, 0, 1), repeat=dim) if any(u) and u > tuple(-x for x in u)]
        for u in dirs:
            for L in (1000, 10000, 100000):
                for k in range(31):
                    n += 1
                    if n % nshards != shard:
                        continue
                    for e in range(31):
                        for where in range(4):
                            if where == 0:
                                t = [0, L, L - k, L + e + (1 if k + e == 0 else 0)]
                            elif where == 1:
                                t = [0, L, -e - (1 if k + e == 0 else 0), k]
                            elif where == 2:
                                c0 = (1 + e % 9) * (L // 10)
                                t = [0, L, c0, c0 + max(k, 1)]
                            else:
                                t = [0, L, L + 1 + k, L + 2 + k + e]
                            a, b, c, d = ([j * x for x in u] for j in t)
                            yield {"dim": dim, "s1": [a, b], "s2": [c, d], "gen": "long-overlap"}
    yield from boxes(2, -3, 3)
    yield from boxes(3, -1, 2)


def warmup():
    """Import porepy (and run one case) before the clock starts: on a loaded machine the import alone can exceed the
    time budget of the quick tier."""
    try:
        check({"dim": 2, "s1": [[0, 0], [1, 1]], "s2": [[0, 1], [1, 0]], "gen": "cross"})
    except Exception:  # noqa: BLE001 - failures are found and reported by the search
        pass


# ----------------------------------------------------------------------------- check
def _as_input(p, kind, dim, which):
    """How a caller with lattice data hands a point over.  None: float64 array (the default class); int64 / int32:
    integer arrays; list: a plain python list (segments_2d converts with np.asarray and uses lists in its docstring
    examples; segments_3d documents arrays and does arithmetic on its arguments, so it gets int64 arrays instead);
    mixed: the first segment as int64, the second as float64."""
    if kind is None or not all(isinstance(x, int) for x in p):
        return np.array(p, dtype=float)
    if kind == "list":
        return list(p) if dim == 2 else np.array(p, dtype=np.int64)
    if kind == "mixed":
        return np.array(p, dtype=np.int64 if which == 0 else float)
    return np.array(p, dtype=np.int64 if kind == "int64" else np.int32)


def _close(col, P, tolv):
    return all(abs(float(x) - float(y)) <= tolv for x, y in zip(col, P))


def _compare(res, exact, dim, scale, what):
    kind = exact[0]
    if kind == "none":
        require(res is None, "spurious-intersection", lambda: f"{what}: exact: none, got {np.asarray(res).tolist()}")
        return
    require(res is not None, "missed-" + kind, lambda: f"{what}: exact: {_fmt(exact)}, got None")
    res = np.asarray(res, dtype=float)
    require(res.ndim == 2 and res.shape[0] == dim and res.shape[1] in (1, 2), "result-shape",
            lambda: f"{what}: shape {res.shape}")
    if kind == "point":
        P = exact[1]
        if res.shape[1] == 2:
            # 3-d collinear segments touching in one point are reported as a zero-length segment
            require(dim == 3, "point-as-segment", lambda: f"{what}: exact: point {_fmt(exact)}, got {res.tolist()}")
        for k in range(res.shape[1]):
            require(_close(res[:, k], P, scale), "wrong-point",
                    lambda: f"{what}: exact: {_fmt(exact)}, got {res.tolist()}")
    else:
        P, Q = exact[1], exact[2]
        require(res.shape[1] == 2, "segment-as-point", lambda: f"{what}: exact: {_fmt(exact)}, got {res.tolist()}")
        ok = (_close(res[:, 0], P, scale) and _close(res[:, 1], Q, scale)) or \
             (_close(res[:, 0], Q, scale) and _close(res[:, 1], P, scale))
        require(ok, "wrong-segment", lambda: f"{what}: exact: {_fmt(exact)}, got {res.tolist()}")


def _fmt(exact):
    return (exact[0],) + tuple([str(x) for x in p] for p in exact[1:])


def check(s):
    import porepy as pp

    dim = s["dim"]
    f = pp.intersections.segments_2d if dim == 2 else pp.intersections.segments_3d
    A, B, C, D = s["s1"][0], s["s1"][1], s["s2"][0], s["s2"][1]
    if A == B or C == D:
        raise Violation("bad-spec", "zero-length segment")  # never generated
    a, b, c, d = eg.pt(A), eg.pt(B), eg.pt(C), eg.pt(D)
    exact = eg.segment_intersection(a, b, c, d)
    mx = max(abs(x) for p in (A, B, C, D) for x in p)
    if s.get("tf") is None and s["gen"] != "long-overlap":
        scale = 1e-9 * max(1.0, mx) + 1e-9          # lattice class, as before
    else:
        # transformed / long segments: the returned points are rounded intersection points, accurate to a few ulp of
        # the largest coordinate plus a relative 1e-12 of the extent of the pair
        ext = max(max(p[i] for p in (A, B, C, D)) - min(p[i] for p in (A, B, C, D)) for i in range(dim))
        scale = 64 * 2.220446049250313e-16 * mx + 1e-12 * ext

    for order in (0, 1):
        for r1 in (0, 1):
            for r2 in (0, 1):
                p1 = (B, A) if r1 else (A, B)
                p2 = (D, C) if r2 else (C, D)
                if order:
                    p1, p2 = p2, p1
                args = [_as_input(p, s.get("dtype"), dim, w) for p, w in ((p1[0], 0), (p1[1], 0), (p2[0], 1), (p2[1], 1))]
                res = f(*args)
                _compare(res, exact, dim, scale, f"segments_{dim}d({p1[0]},{p1[1]},{p2[0]},{p2[1]})")

    # ---- classification
    u, v, w = eg.sub(b, a), eg.sub(d, c), eg.sub(c, a)
    labels = [f"{dim}d", "kind-" + exact[0], "gen-" + s["gen"]]
    if s.get("tf") is not None:
        num, den, m = s["tf"]
        labels.append("transformed")
        if num > den:
            labels.append("scaled-up")
        if den > num:
            labels.append("scaled-down")
        if m:
            labels.append("far-offset")
    elif s["gen"] != "long-overlap":
        labels.append("lattice")
    if s.get("dtype") is not None and all(isinstance(x, int) for p in (A, B, C, D) for x in p):
        labels.append("int-dtype-inputs")
        labels.append("dtype-" + s["dtype"])
    if s["gen"] == "long-overlap":
        labels.append("long-segment")
        if exact[0] == "segment":
            labels.append("long-segment-short-overlap")
    par = eg.parallel(u, v)
    coplanar = True
    if par:
        if eg.parallel(w, u):
            labels.append("collinear")
            if exact[0] == "none":
                labels.append("collinear-disjoint")
            elif exact[0] == "point":
                labels.append("collinear-touch")
            else:
                labels.append("collinear-overlap")
                if {a, b} == {c, d}:
                    labels.append("identical")
        else:
            labels.append("parallel-noncollinear")
    else:
        if dim == 3:
            coplanar = eg.dot(eg.cross3(u, v), w) == 0
            if any(x == 0 for x in eg.cross3(u, v)):
                labels.append("3d-degenerate-projection")  # parallel projections on some coordinate plane
        if not coplanar:
            labels.append("3d-skew")
        elif exact[0] == "none":
            labels.append("near-miss")
        else:
            P = exact[1]
            if P in (a, b, c, d):
                labels.append("endpoint-touch")
            else:
                labels.append("interior-cross")
            if any(x.denominator != 1 for x in P):
                labels.append("rational-point")
    return {"labels": labels, "nontrivial": coplanar}
