"""C21 Grid connectivity queries agree with the cell-face incidence.

Spec: {"src": "plain"|"frac", "grid": <grid spec> | "frac": <frac spec>,
       "sub": null | [raw cell ints], "qseed": int}
plain: one grid of gen/grids.py; frac: every subdomain of a Cartesian md-grid with axis-aligned
fractures (grids after split_fractures, dims 0..3); "sub": additionally the subgrid extracted
from the (highest-dimensional) grid for that cell set."""
from __future__ import annotations

import numpy as np
from hypothesis import strategies as st

from ..core import Violation, require, require_equal
from ..gen.grids import build_grid, grid_meta, grid_spec
from ..gen.grids_extra import (build_fractured, cells_of, dense_incidence, faces_of_cells, frac_labels, frac_spec,
                               nodes_of_faces)

ID = "C21"
RULE = (
    "Hypothesis draws either a grid spec (all families of C19: Cartesian / tensor / structured simplices - the triangles "
    "as a user-supplied cell-node array with permuted node order per cell and cyclically renumbered nodes - / mixed "
    "polygons / extruded polyhedra, dims 1-3) or a Cartesian md-grid with 0-3 axis-aligned lattice fractures in 2-d / "
    "1-3 rectangles in 3-d (X, T, L intersections, fractures touching the boundary; every subdomain of dimension "
    "0-3 produced by split_fractures is checked), optionally followed by extract_subgrid of a random cell subset "
    "(connected or not). Oracle: the signed incidence is read from the raw csc arrays into a dense matrix D; "
    "faces with exactly one non-zero in D must equal get_all_boundary_faces() (domain/fracture/tip tags as delivered) "
    "and, after update_boundary_face_tag on a copy, the domain_boundary_faces tag (all False in 0-d); plain and "
    "extracted grids carry no fracture/tip tags; cell_faces_as_dense = (cell with +1, cell with -1, -1 for none) per "
    "face; cell_connection_map is symmetric with off-diagonal pattern = pairs of cells sharing a face; "
    "signs_and_cells_of_boundary_faces on a random permuted subset of boundary faces = the unique non-zero of each "
    "row, in query order, and raises ValueError when an internal face is included; cell_nodes = union over the "
    "cell's faces of the face's nodes (set algebra on the raw arrays) and, for Cartesian/simplex families, the node "
    "count per cell known by construction; divergence(1) = D^T and divergence(k) = kron(D^T, I_k) for k=2,3, "
    "divergence(0) raises ValueError. "
    "History class (20 %): the full oracle is evaluated on ONE grid object, the object is then modified in place "
    "- fracture splitting of the intact Cartesian host and fracture grids by meshing.subdomains_to_mdg (the md-grid's "
    "subdomains must be the very objects passed in), reversal of the orientation of all faces (g.cell_faces = "
    "-g.cell_faces), replacement of the object's topology by that of one of its subgrids followed by the documented "
    "tag updates, or moving the nodes + compute_geometry; Grid.copy() taken before the splitting / before "
    "set_periodic_map on the other grid must stay consistent with its own incidence (copies are independent) - and the full oracle is evaluated again against the object "
    "as it stands (no stale derived data). "
    "Exact integer equality. Non-trivial = a grid with >= 2 cells and an internal "
    "face, or any fractured md-grid; distinct = hash of spec."
)
BUDGET = {"quick": {"cases": 2000, "seconds": 40}, "thorough": {"cases": 120000, "seconds": 1200}}
TECHNIQUE = "property-based testing (Hypothesis): differential against dense set/matrix algebra on the raw incidence arrays"
LEVEL_TEXT = ("Exploration: thousands of generated grids per run (all grid families, grids after fracture splitting in "
              "2-d and 3-d including the lower-dimensional fracture and intersection grids, extracted subgrids); every "
              "connectivity query of Grid is compared exactly with a dense reconstruction from the raw csc arrays of "
              "cell_faces / face_nodes.")
LEVEL_NOTE = ("Grids of at most a few hundred cells. Fractured grids are Cartesian with lattice-aligned fractures "
              "(gmsh-based fractured simplex grids are not generated). Histories do not include fracture propagation; "
              "cell_diameters (lru_cache, not part of this property) is not queried. The diagonal of cell_connection_map is not "
              "constrained (docstring gives an 'if', not an 'iff'). Finds violations, does not prove absence.")
DESIGN_REF = "DESIGN.md section 4, C21"
ASSUMPTIONS = ["scipy csc storage (indptr/indices/data) is the trusted representation of the incidence",
               "boundary-face queries use distinct face indices"]
REQUIRED = {"tri-user-nodes-renumbered": 0.005, "src-plain": 0.2, "src-frac": 0.2, "src-hist": 0.1, "hist-split": 0.04, "hist-faces-split": 0.03,
            "hist-copy-independent": 0.04, "hist-copy": 0.01, "hist-flip": 0.01, "hist-shrink": 0.01, "hist-move": 0.01, "sub": 0.15, "dim1": 0.05, "dim2": 0.15, "dim3": 0.15,
            "gdim0": 0.02, "gdim1": 0.1, "has-fracture-faces": 0.1, "has-internal-faces": 0.3,
            "query-permuted": 0.2, "frac-dim3": 0.03}


@st.composite
def _spec(draw, tier):
    src = draw(st.sampled_from(["plain", "plain", "frac", "frac", "hist"]))
    s = {"src": src}
    if src == "plain":
        s["grid"] = draw(grid_spec(gmsh=(tier == "thorough"), tri_user=2))
    elif src == "frac":
        s["frac"] = draw(frac_spec())
    else:
        # history on ONE grid object: query -> modify the object in place -> query again
        s["mode"] = draw(st.sampled_from(["split", "split", "flip", "shrink", "move", "copy"]))
        if s["mode"] == "split":
            s["frac"] = draw(frac_spec())
        elif s["mode"] == "flip":
            # (3-d faces store their nodes counter-clockwise w.r.t. the sign, so a pure sign flip is only valid in 1-d/2-d)
            s["grid"] = draw(grid_spec(dims=(1, 2), tri_user=2))
        else:
            s["grid"] = draw(grid_spec(tri_user=2))
        s["cells"] = draw(st.lists(st.integers(0, 400), min_size=1, max_size=12))
        s["qseed"] = draw(st.integers(0, 2**31 - 1))
        s["sub"] = None
        return s
    if draw(st.integers(0, 2)) == 0:
        s["sub"] = draw(st.lists(st.integers(0, 400), min_size=1, max_size=12))
    else:
        s["sub"] = None
    s["qseed"] = draw(st.integers(0, 2**31 - 1))
    return s


def strategy(tier):
    return _spec(tier)


def warmup():
    """Compile / load the numba kernels used while building grids, before the clock starts."""
    try:  # only meant to compile / load kernels; failures are reported by the search itself
        check({"src": "frac", "frac": {"dim": 3, "nx": [2, 2, 2], "phys": [2.0, 2.0, 2.0],
                                        "fracs": [{"axis": 0, "pos": 1, "lo": [0, 0], "hi": [2, 2]},
                                                  {"axis": 1, "pos": 1, "lo": [0, 0], "hi": [2, 2]}]},
               "sub": [0, 1, 2], "qseed": 0})
        check({"src": "frac", "frac": {"dim": 2, "nx": [2, 2], "phys": [2.0, 2.0],
                                        "fracs": [{"axis": 0, "pos": 1, "lo": [0], "hi": [2]}]}, "sub": None, "qseed": 0})
        for kind, dim, n in (("tet", 3, [1, 1, 1]), ("tri", 2, [2, 2]), ("cart", 1, [3])):
            check({"src": "plain", "grid": {"kind": kind, "dim": dim, "n": n, "phys": [1.0] * dim, "pamp": 0.0, "pseed": 0,
                                            "affine": None, "rigid": None}, "sub": None, "qseed": 1})
    except Exception:  # noqa: BLE001
        pass


_NODES_PER_CELL = {("cart", 1): 2, ("cart", 2): 4, ("cart", 3): 8, ("tensor", 1): 2, ("tensor", 2): 4,
                   ("tensor", 3): 8, ("tri", 2): 3, ("tet", 3): 4, ("gmsh", 2): 3, ("gmsh", 3): 4}


def check_connectivity(g, qseed, labels, tagged_by_mdg=False, nodes_per_cell=None):
    """All C21 sub-checks for one grid."""
    nf, nc = g.num_faces, g.num_cells
    D = dense_incidence(g)
    require(D.shape == (nf, nc), "incidence-shape", f"{D.shape} vs ({nf},{nc})")
    require(np.all(np.isin(D, (-1, 0, 1))), "incidence-values", "entries other than 0, +-1")
    nnb = np.count_nonzero(D, axis=1)
    labels.add(f"gdim{g.dim}")
    if g.dim > 0:
        require(np.all((nnb >= 1) & (nnb <= 2)), "incidence-neighbours", "a face has 0 or >2 neighbouring cells")
        require(np.all(D.sum(axis=1)[nnb == 2] == 0), "incidence-orientation", "internal face without +1/-1 pair")
    one = np.flatnonzero(nnb == 1)
    internal = np.flatnonzero(nnb == 2)
    if internal.size:
        labels.add("has-internal-faces")

    # ---- boundary tags
    t = g.tags
    for k in ("domain_boundary_faces", "fracture_faces", "tip_faces"):
        require(np.asarray(t[k]).shape == (nf,), "tag-shape", f"{k}: {np.asarray(t[k]).shape}")
    require_equal(np.sort(g.get_all_boundary_faces()), one, "boundary-faces-all",
                  "get_all_boundary_faces vs faces with exactly one neighbour")
    if not tagged_by_mdg:
        require_equal(np.flatnonzero(t["domain_boundary_faces"]), one, "boundary-tag-constructed",
                      "domain_boundary_faces tag set by the constructor")
        require(not np.any(t["fracture_faces"]) and not np.any(t["tip_faces"]), "boundary-tag-constructed",
                "fracture / tip tag on a grid without fractures")
        require_equal(g.get_boundary_faces(), one, "boundary-faces-domain", "get_boundary_faces")
    else:
        if np.any(t["fracture_faces"]):
            labels.add("has-fracture-faces")
        if np.any(t["tip_faces"]):
            labels.add("has-tip-faces")
    h = g.copy()
    h.update_boundary_face_tag()
    require_equal(np.flatnonzero(h.tags["domain_boundary_faces"]), one if g.dim > 0 else np.zeros(0, dtype=int),
                  "boundary-tag-updated", "domain_boundary_faces after update_boundary_face_tag")
    require(np.asarray(h.tags["domain_boundary_faces"]).shape == (nf,), "tag-shape", "after update")

    # ---- dense face-cell relation
    cfd = g.cell_faces_as_dense()
    require(cfd.shape == (2, nf), "cfdense-shape", f"{cfd.shape}")
    exp = -np.ones((2, nf), dtype=int)
    for f in range(nf):
        for c in np.flatnonzero(D[f]):
            exp[0 if D[f, c] > 0 else 1, f] = c
    require_equal(cfd, exp, "cfdense-values", "cell_faces_as_dense")

    # ---- connection map
    M = g.cell_connection_map()
    require(M.shape == (nc, nc), "connmap-shape", f"{M.shape}")
    Md = np.asarray(M.toarray()).astype(bool)
    expM = np.zeros((nc, nc), dtype=bool)
    for f in internal:
        a, b = np.flatnonzero(D[f])
        expM[a, b] = expM[b, a] = True
    require(np.array_equal(Md, Md.T), "connmap-symmetric", "cell_connection_map not symmetric")
    off = ~np.eye(nc, dtype=bool)
    require_equal(Md & off, expM, "connmap-pattern", "off-diagonal pattern of cell_connection_map")

    # ---- signs and cells of boundary faces
    rng = np.random.default_rng(qseed)
    if one.size:
        k = int(rng.integers(1, one.size + 1))
        q = rng.permutation(one)[:k]
        if k >= 2 and np.any(np.diff(q) < 0):
            labels.add("query-permuted")
        sg, ci = g.signs_and_cells_of_boundary_faces(q)
        e_ci = np.array([np.flatnonzero(D[f])[0] for f in q])
        e_sg = np.array([D[f, c] for f, c in zip(q, e_ci)])
        require_equal(ci, e_ci, "bsigns-cells", f"cells of boundary faces {q.tolist()}")
        require_equal(sg, e_sg, "bsigns-signs", f"signs of boundary faces {q.tolist()}")
        if internal.size:
            bad = np.insert(q, int(rng.integers(0, k + 1)), int(internal[int(rng.integers(0, internal.size))]))
            try:
                g.signs_and_cells_of_boundary_faces(bad)
            except ValueError:
                pass
            else:
                raise Violation("bsigns-internal-accepted", f"no ValueError for query with internal face {bad.tolist()}")

    # ---- cell nodes
    if g.dim > 0:
        cn = g.cell_nodes()
        require(cn.shape == (g.num_nodes, nc), "cellnodes-shape", f"{cn.shape}")
        fc, nfc = faces_of_cells(g), nodes_of_faces(g)
        expN = np.zeros((g.num_nodes, nc), dtype=bool)
        for c in range(nc):
            for f in fc[c]:
                expN[nfc[f], c] = True
        require_equal(np.asarray(cn.toarray()).astype(bool), expN, "cellnodes-pattern", "cell_nodes")
        require_equal(g.num_cell_nodes(), expN.sum(axis=0), "cellnodes-count", "num_cell_nodes")
        if nodes_per_cell is not None:
            require(np.all(expN.sum(axis=0) == nodes_per_cell), "cellnodes-by-construction",
                    f"cells do not all have {nodes_per_cell} nodes")

    # ---- divergence
    d1 = g.divergence(1)
    require(d1.shape == (nc, nf), "div-shape", f"{d1.shape}")
    require_equal(d1.toarray(), D.T, "div-scalar", "divergence(1) vs transposed incidence")
    for k in (2, 3):
        dk = g.divergence(k)
        require(dk.shape == (k * nc, k * nf), "div-shape", f"dim {k}: {dk.shape}")
        require_equal(dk.toarray(), np.kron(D.T, np.eye(k, dtype=int)), "div-vector",
                      f"divergence({k}) vs kron(divergence(1), I)")
    try:
        g.divergence(0)
    except ValueError:
        pass
    else:
        raise Violation("div-zero-dim-accepted", "divergence(0) did not raise ValueError")
    return internal.size


def _check_history(spec, labels):
    """Query, modify the same grid object(s) in place with the library's own operations, query again."""
    import porepy as pp
    from porepy.fracs import structured

    from ..gen.grids_extra import fracture_arrays

    q = spec["qseed"]
    mode = spec["mode"]
    labels.add("hist-" + mode)
    if mode == "split":
        fs = spec["frac"]
        labels.update(frac_labels(fs))
        labels.add(f"dim{fs['dim']}")
        make = structured._cart_grid_2d if fs["dim"] == 2 else structured._cart_grid_3d
        grids = make(fracture_arrays(fs), np.array(fs["nx"]), physdims=np.array(fs["phys"], dtype=float))
        objs = [g for lst in grids for g in lst]
        for i, g in enumerate(objs):  # intact grids: tags as set by the constructors
            check_connectivity(g, q + i, set(), nodes_per_cell=(2 ** g.dim if g.dim > 0 else None))
        nf0 = [g.num_faces for g in objs]
        copies = [g.copy() for g in objs]  # independent grids: splitting the originals must not reach them
        mdg = pp.meshing.subdomains_to_mdg(grids)  # splits faces and nodes of the very same objects
        sds = mdg.subdomains()
        require(len(sds) == len(objs) and all(any(sd is g for g in objs) for sd in sds), "hist-same-objects",
                "the subdomains of the md-grid are not the grid objects that were passed in")
        if any(g.num_faces != n for g, n in zip(objs, nf0)):
            labels.add("hist-faces-split")
        for i, g in enumerate(objs):
            check_connectivity(g, q + 50 + i, labels, tagged_by_mdg=True, nodes_per_cell=(2 ** g.dim if g.dim > 0 else None))
        for i, cp in enumerate(copies):
            check_connectivity(cp, q + 70 + i, set(), nodes_per_cell=(2 ** cp.dim if cp.dim > 0 else None))
        labels.add("hist-copy-independent")
        # geometry change on the same objects: topology queries are unaffected, and still consistent
        for i, g in enumerate(objs):
            if g.dim > 0:
                g.nodes = g.nodes * 1.5 + 0.25
                g.compute_geometry()
                check_connectivity(g, q + 90 + i, set(), tagged_by_mdg=True, nodes_per_cell=2 ** g.dim)
        return True
    gs = spec["grid"]
    g = build_grid(gs)
    labels.update(grid_meta(gs)["labels"])
    npc = _NODES_PER_CELL.get((gs["kind"], gs["dim"]))
    nint = check_connectivity(g, q, set(), nodes_per_cell=npc)
    if mode == "copy":
        # Grid.copy() gives an independent grid: a documented in-place change of the tags of one of the two
        # (set_periodic_map clears domain_boundary_faces of the periodic faces) must not reach the other
        bnd = np.flatnonzero(np.count_nonzero(dense_incidence(g), axis=1) == 1)
        pair = np.array([[int(bnd[0])], [int(bnd[-1])]])
        first, second = g.copy(), g.copy()
        second.set_periodic_map(pair)
        check_connectivity(g, q + 1, labels, nodes_per_cell=npc)
        check_connectivity(first, q + 2, set(), nodes_per_cell=npc)
        g.set_periodic_map(pair)
        check_connectivity(first, q + 3, set(), nodes_per_cell=npc)
        labels.add("hist-copy-independent")
        return g.num_cells >= 2 and nint > 0
    if mode == "flip":
        # the opposite orientation convention of every face: assign the attribute, as split_grid does
        g.cell_faces = -g.cell_faces
        g.compute_geometry()
    elif mode == "move":
        g.nodes = g.nodes * 2.0 - 0.5
        g.compute_geometry()
    else:  # shrink: the grid object takes over the topology of one of its subgrids, tags re-initialised
        cells = sorted(cells_of(spec["cells"], g.num_cells))
        h, _, _ = pp.partition.extract_subgrid(g, np.array(cells, dtype=int))
        g.cell_faces, g.face_nodes, g.nodes = h.cell_faces, h.face_nodes, h.nodes
        g.num_cells, g.num_faces, g.num_nodes = h.num_cells, h.num_faces, h.num_nodes
        g.initiate_face_tags()
        g.update_boundary_face_tag()
        g.initiate_node_tags()
        g.update_boundary_node_tag()
        g.compute_geometry()
    check_connectivity(g, q + 1, labels, nodes_per_cell=npc)
    return g.num_cells >= 2 and nint > 0


def check(spec):
    import porepy as pp

    labels = set()
    labels.add("src-" + spec["src"])
    nontrivial = False
    if spec["src"] == "hist":
        nontrivial = _check_history(spec, labels)
        return {"labels": sorted(labels), "nontrivial": bool(nontrivial)}
    if spec["src"] == "plain":
        gs = spec["grid"]
        g = build_grid(gs)
        labels.update(grid_meta(gs)["labels"])
        npc = _NODES_PER_CELL.get((gs["kind"], gs["dim"]))
        nint = check_connectivity(g, spec["qseed"], labels, nodes_per_cell=npc)
        nontrivial = g.num_cells >= 2 and nint > 0
        top = g
        top_npc = npc
    else:
        fs = spec["frac"]
        mdg = build_fractured(fs)
        labels.update(frac_labels(fs))
        labels.add(f"dim{fs['dim']}")
        sds = mdg.subdomains()
        for i, sd in enumerate(sds):
            check_connectivity(sd, spec["qseed"] + i, labels, tagged_by_mdg=True,
                               nodes_per_cell=(2 ** sd.dim if sd.dim > 0 else None))
        top = sds[0]
        top_npc = 2 ** top.dim
        nontrivial = True
    if spec["sub"] is not None:
        cells = cells_of(spec["sub"], top.num_cells)
        h, _, _ = pp.partition.extract_subgrid(top, np.array(sorted(cells), dtype=int))
        require(h.num_cells == len(cells), "sub-cells", f"{h.num_cells} cells for {len(cells)} requested")
        labels.add("sub")
        check_connectivity(h, spec["qseed"] + 101, labels, nodes_per_cell=top_npc)
    return {"labels": sorted(labels), "nontrivial": bool(nontrivial)}
