"""C40 Material tensors are symmetric and transform as tensors.

Spec kinds
* {"kind": "second", "form": "full"|"2d"|"diag"|"iso", "cells": [{"lam": [l1, l2, l3], "ang": [a, b, c]}, ...],
   "rot": [a, b, c], "restrict": [cell indices], "mut": [i, j, cell]}
  cell-wise K = Q diag(lam) Q^T with Q = Rz(a) Ry(b) Rx(c)  (form "2d": rotation about z only and only kxx, kyy, kxy
  are passed; "diag": Q = I and kxx, kyy, kzz passed; "iso": only kxx passed).
* {"kind": "fourth", "mu": [...], "lmbda": [...], "extra": [{"A": [6 ints], "B": [6 ints], "field": [...]}, ...],
   "restrict": [...], "mut": [i, j, cell]}
  extra fields enter with the 9x9 matrix vec(A) vec(B)^T + vec(B) vec(A)^T, A and B symmetric 3x3 (listed as xx, yy,
  zz, xy, xz, yz), which has the major and minor symmetries.
"""
from __future__ import annotations

import math

import numpy as np
from hypothesis import strategies as st

from ..core import require, require_close, require_equal

ID = "C40"
RULE = (
    "Hypothesis draws either a SecondOrderTensor on 1..6 cells from cell-wise SPD matrices Q diag(lam) Q^T (lam in "
    "[0.1, 10], or strongly anisotropic lam = m 10^-k with ratio up to 1e6; Q from three Euler angles; constructor "
    "forms: all six components / 2-d (kxx, kyy, kxy) / diagonal / isotropic / diagonal plus a proper subset of the "
    "off-diagonal components, e.g. kyz alone), a rotation matrix (Euler angles, "
    "arbitrary or multiples of pi/2), a cell subset (unique indices, sorted or not) and an entry to mutate; or a "
    "FourthOrderTensor from mu in [0.5, 3], lmbda in [0, 3] on 1..6 cells with 0..2 extra fields whose 9x9 matrices "
    "have the major and minor symmetries. In both kinds every parameter is multiplied by a unit factor 10^e, e = 0 "
    "or in -18..-9 (scaled-small: permeability in m^2) or 6..12 (scaled-large: stiffness in Pa). Oracle: "
    "values[i,j] == values[j,i] exactly and the passed components sit in their entries; rotate(R) == R K R^T "
    "componentwise to 1e-12 x max|K| of that cell, stays symmetric (same tolerance) and keeps the eigenvalues "
    "(1e-9 x largest eigenvalue of the cell) - all tolerances relative to the cell's own magnitude, none absolute; "
    "fourth order: 9x9 layout equals lmbda d_ij d_kl + mu (d_ik d_jl + d_il d_jk) (+ extra fields) entrywise "
    "(1e-12 x max entry), major and both minor symmetries exact; restrict_to_cells(c) == values[..., c] (and mu, "
    "lmbda, extra fields [c]) leaving the original untouched; copy() equal, of the same type, and unaffected by "
    "in-place mutation of the original (and vice versa; the mutation is sized to the tensor's magnitude). "
    "Non-trivial = >= 2 cells; distinct = hash of spec. Fourth-order specs also run an operation history (restrict -> copy -> restrict, caller rebinds the entries of the dict it passed as other_fields -> copy) with the oracle applied to every intermediate tensor."
)
BUDGET = {"quick": {"cases": 4000, "seconds": 40}, "thorough": {"cases": 250000, "seconds": 1100}}
TECHNIQUE = "property-based testing (Hypothesis): algebraic oracles (symmetry, similarity transform, index selection, aliasing)"
LEVEL_TEXT = ("Exploration: thousands of generated cell-wise SPD permeability tensors (well conditioned and strongly "
              "anisotropic, in unit systems from 1e-18 to 1e12), Lame parameter arrays (with custom extra fields), "
              "rotations and cell subsets per run; symmetry, entry placement, the fourth-order "
              "layout formula, rotate(R) = R K R^T with preserved eigenvalues, restrict_to_cells and the independence "
              "of copies are compared with direct numpy expressions.")
LEVEL_NOTE = ("Up to 6 cells; eigenvalue ratios up to 1e6 within a cell, overall magnitudes 1e-19 .. 1e13 (unit "
              "factors); proper rotations only. Tolerances are relative to the magnitude of the tensor in each cell "
              "(1e-12 componentwise, 1e-9 for eigenvalues), exact equality elsewhere. Finds violations, does not "
              "prove absence.")
DESIGN_REF = "DESIGN.md section 4, C40"
ASSUMPTIONS = [
    "second-order tensors are built from symmetric positive definite matrices with eigenvalue ratio <= 1e6 per cell, in any unit system (overall factor 1e-18 .. 1e12)",
    "R is a proper rotation (orthogonal, det +1)",
    "cell subsets are arrays of unique integer indices (sorted or unsorted), as passed by mpfa / mpsa",
    "extra fields of the fourth-order tensor come with 9x9 matrices that have the major and minor symmetries (as in the repository's tests); the pair index of the 9x9 layout is 3*i + j",
]
REQUIRED = {
    "second": 0.3, "fourth": 0.3, "form-full": 0.08, "form-2d": 0.05, "form-diag": 0.05, "form-iso": 0.05, "form-partial": 0.04,
    "rot-generic": 0.1, "rot-quarter-turns": 0.05, "multi-cell": 0.5, "restrict-unsorted": 0.1,
    "restrict-sorted": 0.1, "extra-fields": 0.1, "no-extra-fields": 0.1,
    "fourth-history-other-fields": 0.1, "fourth-history": 0.08, "scaled-small": 0.15, "scaled-large": 0.08, "scaled-unit": 0.15, "anisotropic": 0.05,
}

# ----------------------------------------------------------------------------- strategies
_ang = st.one_of(st.sampled_from([0.0, math.pi / 2, math.pi, -math.pi / 2]),
                 st.floats(-math.pi, math.pi, allow_nan=False, allow_subnormal=False))
_lam = st.one_of(st.sampled_from([0.1, 1.0, 10.0]), st.floats(0.1, 10.0, allow_nan=False))
# strongly anisotropic cells: principal values m * 10^-k, m in [1, 10), k in 0..5  (ratio <= 1e6)
_lam_aniso = st.builds(lambda m, k: m * 10.0 ** (-k), st.floats(1.0, 9.999, allow_nan=False), st.integers(0, 5))
# unit factor 10^e applied to every parameter of the tensor (permeability in m^2, stiffness in Pa, ...)
_scale_exp = st.sampled_from(["small", "small", "unit", "unit", "large"]).flatmap(
    lambda c: st.integers(-18, -9) if c == "small" else (st.integers(6, 12) if c == "large" else st.just(0)))


def _subset(draw, nc):
    idx = draw(st.lists(st.integers(0, nc - 1), unique=True, min_size=1, max_size=nc))
    if draw(st.booleans()):
        idx = sorted(idx)
    elif idx == sorted(idx):
        idx = idx[::-1]
    return idx


@st.composite
def _second(draw):
    nc = draw(st.integers(1, 6))
    form = draw(st.sampled_from(["full", "full", "2d", "diag", "iso", "partial"]))
    # form "partial": the three diagonal components plus an arbitrary proper subset of the off-diagonal ones, e.g. kyz
    # alone (off-diagonal components that are not passed are zero by documentation; the defaults of kyy / kzz are not
    # demanded, see DESIGN section 8, so the diagonal is always passed)
    partial = ["kyy", "kzz"] + sorted(draw(st.sets(st.sampled_from(["kxy", "kxz", "kyz"]), min_size=1, max_size=2)))
    cells = []
    aniso = draw(st.integers(0, 2)) == 0
    for _ in range(nc):
        lam = [draw(_lam_aniso if aniso else _lam) for _ in range(3)]
        ang = [draw(_ang) for _ in range(3)]
        cells.append({"lam": lam, "ang": ang})
    quarter = draw(st.integers(0, 3)) == 0
    if quarter:
        rot = [draw(st.integers(-2, 2)) * (math.pi / 2) for _ in range(3)]
    else:
        rot = [draw(_ang) for _ in range(3)]
    return {"kind": "second", "form": form, "partial": partial, "cells": cells, "rot": rot, "quarter": quarter,
            "scale_exp": draw(_scale_exp), "restrict": _subset(draw, nc),
            "mut": [draw(st.integers(0, 2)), draw(st.integers(0, 2)), draw(st.integers(0, nc - 1))]}


@st.composite
def _fourth(draw):
    nc = draw(st.integers(1, 6))
    mu = [draw(st.floats(0.5, 3.0, allow_nan=False)) for _ in range(nc)]
    lm = [draw(st.one_of(st.just(0.0), st.floats(0.0, 3.0, allow_nan=False, allow_subnormal=False))) for _ in range(nc)]
    extra = []
    for _ in range(draw(st.sampled_from([0, 0, 1, 2]))):
        extra.append({"A": [draw(st.integers(-2, 2)) for _ in range(6)],
                      "B": [draw(st.integers(-2, 2)) for _ in range(6)],
                      "field": [draw(st.floats(-2.0, 2.0, allow_nan=False, allow_subnormal=False)) for _ in range(nc)]})
    idx1 = _subset(draw, nc)
    if draw(st.integers(0, 2)) == 0:
        idx1 = draw(st.permutations(list(range(nc))))  # a reordering of all cells
    idx2 = _subset(draw, len(idx1))
    return {"kind": "fourth", "mu": mu, "lmbda": lm, "extra": extra, "scale_exp": draw(_scale_exp),
            "hist": {"idx1": list(idx1), "idx2": list(idx2)},
            "restrict": _subset(draw, nc),
            "mut": [draw(st.integers(0, 8)), draw(st.integers(0, 8)), draw(st.integers(0, nc - 1))]}


def strategy(tier):
    return st.one_of(_second(), _fourth())


# ----------------------------------------------------------------------------- helpers
def _rot(ang):
    a, b, c = ang
    rz = np.array([[math.cos(a), -math.sin(a), 0.0], [math.sin(a), math.cos(a), 0.0], [0.0, 0.0, 1.0]])
    ry = np.array([[math.cos(b), 0.0, math.sin(b)], [0.0, 1.0, 0.0], [-math.sin(b), 0.0, math.cos(b)]])
    rx = np.array([[1.0, 0.0, 0.0], [0.0, math.cos(c), -math.sin(c)], [0.0, math.sin(c), math.cos(c)]])
    return rz @ ry @ rx


def _scale_labels(sexp):
    if sexp <= -9:
        return ["scaled-small"]
    if sexp >= 6:
        return ["scaled-large"]
    return ["scaled-unit"]


def _sym3(v):
    xx, yy, zz, xy, xz, yz = v
    return np.array([[xx, xy, xz], [xy, yy, yz], [xz, yz, zz]], dtype=float)


def _extra_mat(e):
    a, b = _sym3(e["A"]).ravel(), _sym3(e["B"]).ravel()
    return np.outer(a, b) + np.outer(b, a)


def _check_copy_independent(t, mut, tag, fields=()):
    """copy() equals the original, has its own memory, and neither side sees the other's in-place changes."""
    c = t.copy()
    require(type(c) is type(t), f"{tag}-copy-type", f"{type(c)}")
    require_equal(c.values, t.values, f"{tag}-copy-values", "copy().values")
    for f in fields:
        require_equal(getattr(c, f), getattr(t, f), f"{tag}-copy-field", f"copy().{f}")
    snap = t.values.copy()
    snap_f = {f: np.array(getattr(t, f), copy=True) for f in fields}
    i, j, k = mut
    # a change that is visible at the magnitude of this tensor
    bump = float(np.max(np.abs(snap))) if snap.size and np.max(np.abs(snap)) > 0 else 1.0
    # mutate the original in place
    t.values[i, j, k] += bump
    t.values *= 2.0
    for f in fields:
        getattr(t, f)[k] += bump
    require_equal(c.values, snap, f"{tag}-copy-aliased", "copy().values changed when the original was mutated")
    for f in fields:
        require_equal(getattr(c, f), snap_f[f], f"{tag}-copy-aliased-field", f"copy().{f} changed with the original")
    # restore the original, then mutate the copy
    t.values[...] = snap
    for f in fields:
        getattr(t, f)[...] = snap_f[f]
    c.values[i, j, k] -= 3.0 * bump
    for f in fields:
        getattr(c, f)[k] -= 3.0 * bump
    require_equal(t.values, snap, f"{tag}-copy-aliased-back", "original changed when the copy was mutated")
    for f in fields:
        require_equal(getattr(t, f), snap_f[f], f"{tag}-copy-aliased-back-field", f"original .{f} changed with the copy")


def _check_restrict(t, cells, tag, fields=()):
    snap = t.values.copy()
    snap_f = {f: np.array(getattr(t, f), copy=True) for f in fields}
    idx = np.array(cells, dtype=int)
    r = t.restrict_to_cells(idx)
    require(type(r) is type(t), f"{tag}-restrict-type", f"{type(r)}")
    require_equal(r.values, snap[:, :, idx], f"{tag}-restrict-values", f"restrict_to_cells({cells}).values")
    for f in fields:
        require_equal(getattr(r, f), snap_f[f][idx], f"{tag}-restrict-field", f"restrict_to_cells({cells}).{f}")
    require_equal(t.values, snap, f"{tag}-restrict-mutates", "restrict_to_cells changed the original values")
    for f in fields:
        require_equal(getattr(t, f), snap_f[f], f"{tag}-restrict-mutates-field", f"restrict_to_cells changed original .{f}")
    # the restriction owns its memory
    r.values[...] = -7.0 * (float(np.max(np.abs(snap))) or 1.0)
    for f in fields:
        getattr(r, f)[...] = -7.0 * (float(np.max(np.abs(snap))) or 1.0)
    require_equal(t.values, snap, f"{tag}-restrict-aliased", "writing into the restricted tensor changed the original")
    for f in fields:
        require_equal(getattr(t, f), snap_f[f], f"{tag}-restrict-aliased-field", f"restricted .{f} aliases the original")


# ----------------------------------------------------------------------------- check
def check(s):
    if s["kind"] == "second":
        return _check_second(s)
    return _check_fourth(s)


def _check_second(s):
    import porepy as pp

    form = s["form"]
    nc = len(s["cells"])
    sexp = int(s.get("scale_exp", 0))
    factor = 10.0 ** sexp
    K = np.zeros((3, 3, nc))
    lam = np.zeros((3, nc))
    for c, cell in enumerate(s["cells"]):
        l = list(cell["lam"])
        if form == "iso":
            l = [l[0]] * 3
        if form in ("diag", "iso"):
            q = np.eye(3)
        elif form == "2d":
            q = _rot([cell["ang"][0], 0.0, 0.0])
        else:
            q = _rot(cell["ang"])
        l = [li * factor for li in l]
        k = q @ np.diag(l) @ q.T
        k = 0.5 * (k + k.T)
        if form == "partial":
            # diagonal as generated (or the documented default kxx), the chosen off-diagonal components small enough
            # for diagonal dominance whatever subset is passed (the constructor rejects tensors that are not positive)
            pg = s["partial"]
            d = [l[0], l[1] if "kyy" in pg else l[0], l[2] if "kzz" in pg else l[0]]
            k = np.diag(d)
            for nm, (i, j), sg in (("kxy", (0, 1), 1.0), ("kxz", (0, 2), -1.0), ("kyz", (1, 2), 1.0)):
                if nm in pg:
                    k[i, j] = k[j, i] = sg * 0.3 * min(d) * (1 + 0.1 * c)
        if form == "2d":
            k[2, :] = 0.0
            k[:, 2] = 0.0
            k[2, 2] = k[0, 0]  # documented default: kzz equal to kxx
            l = [l[0], l[1], k[0, 0]]
        K[:, :, c] = k
        lam[:, c] = sorted(l)
    comp = {"kxx": K[0, 0].copy(), "kyy": K[1, 1].copy(), "kzz": K[2, 2].copy(), "kxy": K[0, 1].copy(),
            "kxz": K[0, 2].copy(), "kyz": K[1, 2].copy()}
    given = {"full": ["kxx", "kyy", "kzz", "kxy", "kxz", "kyz"], "2d": ["kxx", "kyy", "kxy"],
             "diag": ["kxx", "kyy", "kzz"], "iso": ["kxx"], "partial": ["kxx"] + list(s.get("partial", []))}[form]
    t = pp.SecondOrderTensor(**{k: comp[k] for k in given})

    labels = ["second", f"form-{form}", "rot-quarter-turns" if s["quarter"] else "rot-generic"] + _scale_labels(sexp)
    if form in ("full", "2d", "diag") and any(max(c["lam"]) / min(c["lam"]) >= 1e3 for c in s["cells"]):
        labels.append("anisotropic")
    if nc >= 2:
        labels.append("multi-cell")
    labels.append("restrict-sorted" if s["restrict"] == sorted(s["restrict"]) else "restrict-unsorted")

    v = t.values
    require(v.shape == (3, 3, nc), "second-shape", f"{v.shape}")
    require_equal(v, np.transpose(v, (1, 0, 2)), "second-symmetric", "values[i,j] != values[j,i]")
    pos = {"kxx": (0, 0), "kyy": (1, 1), "kzz": (2, 2), "kxy": (0, 1), "kxz": (0, 2), "kyz": (1, 2)}
    for name in given:
        i, j = pos[name]
        require_equal(v[i, j], comp[name], "second-entry", f"values[{i},{j}] != {name}")
    for name in ("kxy", "kxz", "kyz"):
        if name not in given:
            i, j = pos[name]
            require_equal(v[i, j], np.zeros(nc), "second-default-offdiag", f"{name} not given but values[{i},{j}] != 0")

    if form == "partial":
        labels.append("partial-offdiag-" + "".join(n[1:] for n in given if n in ("kxy", "kxz", "kyz")) if any(
            n in given for n in ("kxy", "kxz", "kyz")) else "partial-diag-only")
        # the whole tensor is determined by the given components and the documented defaults
        require_equal(v, K, "second-partial-values", f"components {given} with documented defaults")
    K0 = v.copy()
    if form in ("2d", "iso", "partial"):
        # entries that were not passed are filled by documented defaults which this check does not demand; take
        # the reference eigenvalues of those forms from the (symmetric, verified) values before the rotation
        for c in range(nc):
            lam[:, c] = np.linalg.eigvalsh(K0[:, :, c])

    # rotation: similarity transform, done on a copy (as rt0 / mvem do).  Every tolerance is relative to the
    # magnitude of the tensor of that cell (its largest entry / largest eigenvalue), never absolute: a tensor is a
    # physical quantity and its numbers depend on the unit system.
    R = _rot(s["rot"])
    tr = t.copy()
    tr.rotate(R)
    require(tr.values.shape == (3, 3, nc), "rotate-shape", f"{tr.values.shape}")
    for c in range(nc):
        cs = float(np.max(np.abs(K0[:, :, c])))
        exp = R @ K0[:, :, c] @ R.T
        got = tr.values[:, :, c]
        require_close(got, exp, "rotate-similarity", rtol=1e-12, atol=0.0, scale=cs,
                      what=f"rotate(R) vs R K R^T componentwise, cell {c}, max|K| = {cs:.3e}")
        require_close(got, got.T, "rotate-symmetric", rtol=1e-12, atol=0.0, scale=cs,
                      what=f"rotated tensor not symmetric, cell {c}")
        ev = np.linalg.eigvalsh(0.5 * (got + got.T))
        require_close(ev, lam[:, c], "rotate-eigenvalues", rtol=1e-9, atol=0.0, scale=float(np.max(np.abs(lam[:, c]))),
                      what=f"eigenvalues after rotate, cell {c}")
    require_equal(t.values, K0, "rotate-copy-aliased", "rotating a copy changed the original")

    _check_restrict(t, s["restrict"], "second")
    _check_copy_independent(t, s["mut"], "second")
    return {"labels": labels, "nontrivial": nc >= 2}


def _check_fourth(s):
    import porepy as pp

    sexp = int(s.get("scale_exp", 0))
    factor = 10.0 ** sexp
    mu = np.array(s["mu"], dtype=float) * factor
    lm = np.array(s["lmbda"], dtype=float) * factor
    nc = mu.size
    other = {}
    for n, e in enumerate(s["extra"]):
        other[f"field_{n}"] = (_extra_mat(e), np.array(e["field"], dtype=float) * factor)
    user_fields = {k: (m.copy(), f.copy()) for k, (m, f) in other.items()} if other else None  # the caller's dict
    t = pp.FourthOrderTensor(mu.copy(), lm.copy(), other_fields=user_fields)

    labels = ["fourth", "extra-fields" if other else "no-extra-fields"] + _scale_labels(sexp)
    if nc >= 2:
        labels.append("multi-cell")
    labels.append("restrict-sorted" if s["restrict"] == sorted(s["restrict"]) else "restrict-unsorted")

    v = t.values
    require(v.shape == (9, 9, nc), "fourth-shape", f"{v.shape}")
    # entrywise formula in the 9x9 layout, pair index I = 3*i + j
    d = np.eye(3)
    exp = np.zeros((9, 9, nc))
    for i in range(3):
        for j in range(3):
            for k in range(3):
                for l in range(3):
                    exp[3 * i + j, 3 * k + l] = (lm * (d[i, j] * d[k, l])
                                                 + mu * (d[i, k] * d[j, l] + d[i, l] * d[j, k]))
    for key, (m, f) in other.items():
        exp += m[:, :, None] * f
    scale = float(np.max(np.abs(exp))) if exp.size else 1.0
    require_close(v, exp, "fourth-formula", rtol=1e-12, atol=0.0, scale=max(scale, 1e-300),
                  what="values vs lmbda d_ij d_kl + mu (d_ik d_jl + d_il d_jk) (+ extra fields)")
    require_equal(v, np.transpose(v, (1, 0, 2)), "fourth-major-symmetry", "values[I,J] != values[J,I]")
    perm = np.array([3 * j + i for i in range(3) for j in range(3)])  # (i,j) -> (j,i)
    require_equal(v, v[perm, :, :], "fourth-minor-symmetry-1", "c_ijkl != c_jikl")
    require_equal(v, v[:, perm, :], "fourth-minor-symmetry-2", "c_ijkl != c_ijlk")
    require_equal(t.mu, mu, "fourth-mu", "stored mu")
    require_equal(t.lmbda, lm, "fourth-lmbda", "stored lmbda")

    fields = ["mu", "lmbda"] + list(other.keys())
    require(list(t.constitutive_parameters) == fields, "fourth-parameters", f"{t.constitutive_parameters}")
    _check_restrict(t, s["restrict"], "fourth", fields)
    _check_copy_independent(t, s["mut"], "fourth", fields)

    # ---- operation history: restrict -> copy -> restrict, then the caller edits its dict; every intermediate tensor
    # is compared with the expected values / fields of its own cells
    hist = s.get("hist")
    if hist:
        labels.append("fourth-history-other-fields" if other else "fourth-history")
        full = {"mu": mu, "lmbda": lm}
        full.update({k: f for k, (m, f) in other.items()})

        def verify(obj, cells, what):
            cells = np.asarray(cells, dtype=int)
            require(type(obj) is type(t), "hist-type", f"{what}: {type(obj)}")
            require(list(obj.constitutive_parameters) == fields, "hist-parameters", f"{what}: {obj.constitutive_parameters}")
            require_close(obj.values, exp[:, :, cells], "hist-values", rtol=1e-12, atol=0.0, scale=max(scale, 1e-300),
                          what=f"{what}: values")
            for name in fields:
                require_equal(getattr(obj, name), full[name][cells], "hist-field", f"{what}: field {name}")

        i1 = np.array(hist["idx1"], dtype=int)
        i2 = np.array(hist["idx2"], dtype=int)
        r1 = t.restrict_to_cells(i1)
        verify(r1, i1, f"restrict_to_cells({i1.tolist()})")
        c1 = r1.copy()
        verify(c1, i1, f"restrict_to_cells({i1.tolist()}).copy()")
        r2 = r1.restrict_to_cells(i2)
        verify(r2, i1[i2], f"restrict_to_cells({i1.tolist()}).restrict_to_cells({i2.tolist()})")
        r3 = c1.restrict_to_cells(i2)
        verify(r3, i1[i2], "restrict -> copy -> restrict")
        verify(r1, i1, "first restriction after the later operations")
        if user_fields is not None:
            # the caller goes on using its dict: entries rebound, a key added (arrays are not touched)
            for k in list(user_fields):
                m_, f_ = user_fields[k]
                user_fields[k] = (np.zeros_like(m_), np.full_like(f_, 99.0))
            user_fields["unrelated"] = (np.eye(9), np.ones(nc))
        c2 = t.copy()
        verify(c2, np.arange(nc), "copy() after the caller edited the dict it had passed to the constructor")
        verify(t, np.arange(nc), "original tensor at the end of the history")
    return {"labels": labels, "nontrivial": nc >= 2}
