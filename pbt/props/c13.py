"""C13 MPSA reproduces linear displacement fields exactly.

Spec: {"grid": grid spec, "lame": {"mu","lmbda"}, "bc": vectorial bc spec, "field": {"c","G"}, "reuse": null|{...}}
(see gen/fv_mech.py).  The stress / bound_stress / bound_displacement_* matrices of pp.Mpsa
are applied to u(x) = c + G x sampled at cell centres and to the matching boundary data
(Dirichlet: u at the face centre; Neumann: exact outward traction integrated over the face)
and compared with the analytic traction sigma n_f, sigma = mu (G+G^T) + lambda tr(G) I."""
from __future__ import annotations

import numpy as np
from hypothesis import strategies as st

from ..core import HarnessError, require_close
from ..gen import fv_mech as fm
from ..gen.grids import build_grid, grid_meta

ID = "C13"
RULE = (
    "Hypothesis draws a 2-d or 3-d grid (Cartesian / tensor with random spacings / structured triangles and "
    "tetrahedra / mixed triangle-quadrilateral polygons and their extrusion to prisms+hexahedra, no hanging "
    "nodes; interior-node perturbation up to 0.15 h where faces stay planar, affine maps and rigid rotations of "
    "3-d grids; gmsh simplices in the thorough tier; 2-d grids in the xy-plane), constant Lame parameters mu in [0.5,3], lambda in [0.1,3], a "
    "linear displacement field u = c + G x (general, symmetric, skew = rigid rotation, volumetric, G = 0 = "
    "translation; u = d (L c + G x) with L the unit factor of the grid and d = 1 or a data magnitude 1e-6..1e6) and a per-face Dirichlet/Neumann assignment from the admissible classes of the property: "
    "all Dirichlet; 2-d any mix (incl. all Neumann, one Dirichlet face); 3-d mix built greedily so that no two "
    "Neumann faces share an edge (never by rejection; re-verified independently per case). In three quarters of "
    "the cases the matrices asserted on come from a RE-discretisation: first another admissible assignment / other "
    "Lame parameters / stretched node coordinates, then in-place edits (is_dir / is_neu of the same bc object, mu "
    "/ lmbda / values of the same tensor, nodes + compute_geometry) to the case proper, directly or there-and-back, "
    "same or new Mpsa object, same or new data dictionary. Oracle (analytic): "
    "stress u + bound_stress bc = sigma n_f on every non-Neumann face; for the translation part c alone zero "
    "traction on every face; bound_displacement_cell u + bound_displacement_face bc = u(x_f) on Dirichlet "
    "faces; all to 1e-9 of the magnitude of the summed terms (|M||v|), no absolute tolerance anywhere. Reconstruction on Neumann faces is not "
    "asserted (not claimed). Non-trivial = >= 2 cells, G != 0 and (a Neumann face present, or a grid that is "
    "not an unperturbed Cartesian one); distinct = hash of spec."
)
BUDGET = {"quick": {"cases": 400, "seconds": 40}, "thorough": {"cases": 6000, "seconds": 1000}}
TECHNIQUE = "property-based testing (Hypothesis): analytic oracle (linear elasticity patch test) on generated grids and boundary-type assignments"
LEVEL_TEXT = ("Exploration: hundreds (quick) to thousands (thorough) of generated combinations of grid family, "
              "geometry variation, Lame parameters, linear displacement field and admissible per-face "
              "Dirichlet/Neumann assignment; the discretisation matrices are compared with the closed-form "
              "traction and face displacement of the linear field, independent of the implementation.")
LEVEL_NOTE = ("Grids have at most ~100 cells, planar faces and no hanging nodes (collinear faces of one cell make "
              "the local MPSA systems singular - a limitation of the method, not explored). Per-face boundary "
              "types only (no per-component mixes, no Robin). Tolerance 1e-9 relative to the summed terms (purely relative: lengths 1e-6..1e4, moduli 1e-6..1e12, "
              "data 1e-6..1e6 are covered). "
              "Finds violations, does not prove absence.")
DESIGN_REF = "DESIGN.md section 4, C13"
ASSUMPTIONS = [
    "2-d grids lie in the xy-plane (tacit assumption documented in mpsa.py / biot.py)",
    "no cell has two coplanar faces meeting in a vertex (no hanging nodes)",
    "3-d: no two Neumann faces share an edge (the property's admissibility condition, by construction)",
    "boundary types are assigned per face (all components alike), Dirichlet or Neumann",
]
REQUIRED = {"dim2": 0.2, "dim3": 0.2, "neumann-present": 0.3, "bc-all_dir": 0.05, "bc-mix": 0.25,
            "field-rotation": 0.03, "field-translation": 0.03, "field-general": 0.12,
            "kind-tri": 0.02, "kind-tet": 0.01, "kind-poly": 0.02, "kind-polyx": 0.01, "perturbed": 0.05,
            "scaled-small": 0.03, "scaled-large": 0.02, "stiff": 0.04, "soft": 0.02, "graded": 0.01, "data-scaled": 0.08,
            "reuse-none": 0.1, "reuse-bc-edited": 0.15, "reuse-geometry-edited": 0.05, "reuse-stiffness-edited": 0.05,
            "reuse-back": 0.08, "reuse-forward": 0.08, "reuse-same-discr": 0.08, "reuse-new-discr": 0.08,
            "reuse-same-data": 0.08, "reuse-new-data": 0.08}

FINDING_MIXED_FACES = "C13-mpsa-neumann-rhs-mixed-face-node-counts"


def _known_mixed_face_nodes(spec) -> bool:
    """3-d grid with both triangular and quadrilateral faces (extruded polygons with at least one
    split quad -> prisms) and at least one Neumann wish: Mpsa._create_bound_rhs scales the Neumann
    data of a sub-face by 1/num_face_nodes of the wrong face."""
    g, b = spec["grid"], spec["bc"]
    return g["kind"] == "polyx" and any(g["split"]) and b["mode"] != "all_dir" and (1 in b["pattern"])


KNOWN = {FINDING_MIXED_FACES: _known_mixed_face_nodes}


# ----------------------------------------------------------------------------- strategy
@st.composite
def _spec(draw, tier):
    thorough = tier == "thorough"
    g = draw(fm.mech_grid_spec(poly=True, max_amp=0.15, max_n=5 if thorough else 4, max_n3=3 if thorough else 2,
                                gmsh=thorough))
    if "merge" in g:
        # merged quads give hexagons with hanging nodes: collinear faces of one cell in a vertex make
        # the local systems singular (method limitation) -> keep triangles and quadrilaterals only
        g["merge"] = [False] * len(g["merge"])
    modes = ("mix", "mix", "mix", "all_dir", "one_dir")
    if g["dim"] == 2:
        modes = modes + ("all_neu",)
    # displacement data in the units of the grid: u = d (L c + G x), L the unit factor of the grid, d a data magnitude
    fs = draw(fm.displacement_spec())
    d = fm.data_scale(draw)
    L = float(g.get("scale", 1.0))
    fs["c"] = [v * L * d for v in fs["c"]]
    fs["G"] = [[v * d for v in row] for row in fs["G"]]
    fs["dscale"] = d
    return {"grid": g, "lame": draw(fm.lame_spec()), "bc": draw(fm.vbc_spec(modes=modes)),
            "field": fs, "reuse": draw(fm.reuse_spec(("mix", "mix", "all_dir", "one_dir")))}


def strategy(tier):
    return _spec(tier)


def warmup():
    fm.warmup_mech(("mpsa",))


# ----------------------------------------------------------------------------- check
def check(spec):
    g = build_grid(spec["grid"])
    nd = g.dim
    lame, fs = spec["lame"], spec["field"]
    bc, is_dir, is_neu = fm.build_vbc(spec["bc"], g)
    if nd == 3 and fm.neumann_faces_share_edge(g, is_neu):
        raise HarnessError("generator produced two Neumann faces sharing an edge in 3-d")
    # single discretisation, or re-discretisation after in-place edits of bc types / geometry / stiffness
    # (fm.discretize_sequence); everything below is asserted on the last discretisation
    reuse = spec.get("reuse")

    def other_types(bc0):
        _, d0, n0 = fm.build_vbc(bc0, g)
        return d0, n0

    states = fm.reuse_states(g, reuse, (is_dir, is_neu), lame, other_types)
    M = fm.discretize_sequence(g, "mpsa", states, same_discr=bool(reuse and reuse["same_discr"]),
                               same_data=bool(reuse and reuse["same_data"]))
    stress, bstress = M["stress"], M["bound_stress"]

    u = fm.flat(fm.displacement_at(fs, g.cell_centers, nd))
    bv = fm.flat(fm.linear_bc_values(g, fs, lame, is_dir, is_neu))
    T = fm.flat(fm.exact_traction(g, fs, lame))
    got = stress @ u + bstress @ bv
    sc = float((fm.abs_apply(stress, u) + fm.abs_apply(bstress, bv)).max())
    not_neu = ~fm.expand_nd(is_neu, nd)
    require_close(got[not_neu], T[not_neu], "traction-non-neumann-faces", rtol=1e-9, atol=0.0, scale=sc,
                  what="stress u + bound_stress bc vs sigma n_f")

    # rigid translation: the constant part alone, Dirichlet data c, zero traction on Neumann faces
    trans = {"c": fs["c"], "G": [[0.0] * 3 for _ in range(3)]}
    u0 = fm.flat(fm.displacement_at(trans, g.cell_centers, nd))
    bv0 = fm.flat(fm.linear_bc_values(g, trans, lame, is_dir, is_neu))
    got0 = stress @ u0 + bstress @ bv0
    sc0 = float((fm.abs_apply(stress, u0) + fm.abs_apply(bstress, bv0)).max())
    require_close(got0, np.zeros_like(got0), "translation-zero-traction", rtol=1e-9, atol=0.0, scale=sc0,
                  what="traction of a rigid translation")

    # displacement reconstruction on Dirichlet faces
    bdc, bdf = M["bound_displacement_cell"], M["bound_displacement_face"]
    rec = bdc @ u + bdf @ bv
    uf = fm.flat(fm.displacement_at(fs, g.face_centers, nd))
    dd = fm.expand_nd(is_dir, nd)
    scr = float((fm.abs_apply(bdc, u) + fm.abs_apply(bdf, bv)).max())
    require_close(rec[dd], uf[dd], "dirichlet-face-displacement", rtol=1e-9, atol=0.0, scale=scr,
                  what="bound_displacement_cell u + bound_displacement_face bc vs u(x_f)")

    meta = grid_meta(spec["grid"])
    labels = list(meta["labels"]) + ["bc-" + spec["bc"]["mode"], "field-" + fs["kind"]] + fm.reuse_labels(reuse)
    labels += fm.scale_labels(spec["grid"], lame, fs.get("dscale", 1.0))
    n_neu, n_dir = int(is_neu.sum()), int(is_dir.sum())
    if n_neu:
        labels.append("neumann-present")
    if n_neu and n_dir:
        labels.append("mixed-bc")
    G = np.asarray(fs["G"], dtype=float)[:nd, :nd]
    plain_cart = spec["grid"]["kind"] == "cart" and not any(
        l in meta["labels"] for l in ("perturbed", "affine"))
    nontrivial = g.num_cells >= 2 and bool(np.any(G != 0)) and (n_neu > 0 or not plain_cart)
    return {"labels": labels, "nontrivial": nontrivial}
