"""C06 Restricted assembly is a slice of the full system.

Spec: see gen/eqsystems.py (c06_spec)."""
from __future__ import annotations

import numpy as np

from ..core import HarnessError, require, require_close, require_equal
from ..gen.eqsystems import apply_step, c06_spec, compose_equation, counts_of, image_blocks
from ..gen.mdgrids import mdg_labels
from ..gen.optrees import Builder, Setup, leaf_table

ID = "C06"
RULE = (
    "Hypothesis draws a small fractured md-grid (pp.meshing.cart_grid, 2-d/3-d, 0-2 fractures), 1-3 cell variables on "
    "random subsets of subdomains / interfaces with random stored values (optionally an explicit state), and 1-4 named "
    "equations set in random order (names not in alphabetical order). Each equation lives on a random subset of "
    "subdomains or of interfaces (grid list passed in random order; 5 % on no grid at all) with random numbers of "
    "equations per cell / face / node; its operator is a random operator tree of the C02 grammar (depth 0-3 quick, 0-4 "
    "thorough), lifted to the image size by a fixed matrix when the image has > 8 rows, optionally plus a linear term "
    "with pairwise different rows. Oracle 1 (independent): the full assemble() equals the stacked forward-mode mirror "
    "of the trees in the order the equations were set (rtol 1e-11) and assembled_equation_indices are the consecutive "
    "blocks. Oracle 2 (the property): for 1-4 requests per system - equations = None / list of names / list of "
    "operators in any order / dict name-or-operator -> sub-list of its grids in any order (incl. empty), variables = "
    "None / [] / names / atomic variables in any order / md-variables - assemble(equations, variables) equals "
    "A_full[rows][:, cols], b_full[rows] (rtol 1e-13) with rows = for each requested equation in set order the blocks "
    "of the requested grids in md order, cols = sorted union of the dof blocks; assembled_equation_indices are the "
    "consecutive row ranges of exactly the requested equations; assemble(evaluate_jacobian=False) equals b_full[rows] "
    "(rtol 1e-11) and leaves assembled_equation_indices untouched. Before assembling, 40 % of the systems go through "
    "an equation history of 1-3 further steps in generated order: update_equation (grids omitted or given, possibly of "
    "the other kind; equations_per_grid_entity omitted, repeated or changed; new operator of the resulting image size), "
    "remove_equation, set_equation under a removed or a fresh name; the model is: set appends, remove deletes, update = "
    "remove + set under the same name with omitted arguments taken from the previous equation (docstring); all oracles "
    "apply to the system as it stands after the history. Non-trivial = some request has a strict grid "
    "restriction, an equation list that is not in set order, or a variable subset that is strict and not a prefix of "
    "the dof vector; distinct = hash of spec."
)
BUDGET = {"quick": {"cases": 2000, "seconds": 45}, "thorough": {"cases": 60000, "seconds": 1200}}
TECHNIQUE = ("property-based testing (Hypothesis): generated equation systems, restricted assembly compared with index "
             "slices of the full assembly; full assembly compared with a forward-mode mirror")
LEVEL_TEXT = ("Exploration: thousands of generated equation systems per run (random operator trees as equations on random "
              "grid subsets with cell / face / node multiplicities), each queried with random equation subsets, grid "
              "restrictions, orderings and variable subsets; rows, columns, reported row indices and residual-only "
              "assembly are compared with slices computed from an independent model of the documented row / dof layout.")
LEVEL_NOTE = ("Column blocks of single variables are taken from dofs_of([v]) (the dof layout itself is C05). Grids have "
              "< 40 cells, variables have cell dofs only. Finds violations, does not prove absence.")
DESIGN_REF = "DESIGN.md section 4, C06"
ASSUMPTIONS = [
    "operator evaluation itself is correct (C02); here only its stacking / slicing is checked",
    "the operator of an equation has exactly the image size declared in set_equation (documented requirement)",
    "no equation / variable is requested twice in one call",
]
REQUIRED = {"eq-dict": 0.2, "eq-names": 0.08, "eq-ops": 0.08, "eq-none": 0.08, "var-atomic": 0.15, "var-names": 0.08,
            "var-md": 0.08, "var-none": 0.08, "var-empty": 0.05, "strict-grid-restriction": 0.15, "request-not-in-set-order": 0.1,
            "multi-grid-equation": 0.3, "interface-equation": 0.1, "face-or-node-rows": 0.2, "lifted": 0.3,
            "evaluated": 0.9, "eq-history": 0.25, "eq-updated-without-grids": 0.15, "eq-updated-with-grids": 0.05,
            "eq-updated-new-size": 0.1, "eq-updated-new-multiplicity-without-grids": 0.05, "eq-removed": 0.05,
            "eq-readded": 0.01, "restriction-non-contiguous-rows": 0.01}


def strategy(tier):
    return c06_spec(max_depth=3 if tier == "quick" else 4)


def _mirror_parts(mirror, size, n):
    if hasattr(mirror, "jac"):
        return np.asarray(mirror.val, dtype=float), mirror.jac.toarray()
    v = np.atleast_1d(np.asarray(mirror, dtype=float))
    if v.size != size and v.size == 1:
        v = np.full(size, float(v[0]))
    return v, np.zeros((v.size, n))


def check(spec):
    import porepy as pp

    S = Setup(spec)
    B = Builder(S)
    es = S.es
    n = es.num_dofs()
    sdc, ic = counts_of(S.mdg)
    leaves = leaf_table(spec["vars"], [c[0] for c in sdc], ic)
    labels = set(mdg_labels(spec["mdg"], S.mdg))
    state = None if S.state is None else S.state
    if state is not None:
        labels.add("explicit-state")

    # ---------------------------------------------------------------- equation history
    steps = spec.get("steps")
    if steps is None:  # replay files written before histories existed
        steps = [dict(e, op="set") for e in spec["eqs"]]
    model, built, removed_names = [], {}, set()
    for st_ in steps:
        if st_["op"] == "remove":
            apply_step(model, st_)
            gone = es.remove_equation(st_["name"])
            require(gone is built[st_["name"]]["op"], "remove-returns-operator",
                    "remove_equation did not return the operator that was set")
            del built[st_["name"]]
            removed_names.add(st_["name"])
            labels.update(("eq-history", "eq-removed"))
            continue
        old = next((dict(e) for e in model if e["name"] == st_["name"]), None) if st_["op"] == "update" else None
        e = apply_step(model, st_)
        blk = image_blocks(e, sdc, ic)
        m = sum(b for _, b in blk)
        node = compose_equation(st_, m, spec["vars"], leaves)
        with np.errstate(all="ignore"):
            mirror, op = B.visit(node)
        if type(op) is not pp.ad.Operator:
            # a bare leaf (variable, array, shifted copy) cannot / must not be renamed: wrap it
            op = op * 1.0
            mirror = mirror * 1.0
        v, J = _mirror_parts(mirror, m, n)
        if v.size != m:
            raise HarnessError(f"equation {e['name']}: mirror has {v.size} rows, image has {m}")
        pool = S.sds if e["on"] == "sd" else S.intfs
        if st_["op"] == "set":
            op.set_name(e["name"])
            es.set_equation(op, [pool[g] for g in e["grids"]], dict(e["per"]))
            if e["name"] in removed_names:
                labels.update(("eq-history", "eq-readded"))
        else:
            kwargs = {}
            if st_["grids"] is not None:
                kwargs["grids"] = [pool[g] for g in st_["grids"]]
                labels.add("eq-updated-with-grids")
            else:
                labels.add("eq-updated-without-grids")
            if st_["per"] is not None:
                kwargs["equations_per_grid_entity"] = dict(st_["per"])
            es.update_equation(e["name"], op, **kwargs)
            labels.add("eq-history")
            old_m = sum(b for _, b in image_blocks(old, sdc, ic))
            if old_m != m:
                labels.add("eq-updated-new-size")
            if st_["per"] is not None and {k: c for k, c in st_["per"].items() if c} != {k: c for k, c in old["per"].items() if c}:
                labels.add("eq-updated-new-multiplicity")
                if st_["grids"] is None:
                    labels.add("eq-updated-new-multiplicity-without-grids")
        built[e["name"]] = {"op": op, "blk": blk, "v": v, "J": J, "m": m, "tsize": st_["tsize"], "base": st_["base"]}
    ops = [built[e["name"]]["op"] for e in model]
    blocks = [built[e["name"]]["blk"] for e in model]
    vals = [built[e["name"]]["v"] for e in model]
    jacs = [built[e["name"]]["J"] for e in model]
    for e in model:
        bb = built[e["name"]]
        if len(e["grids"]) >= 2:
            labels.add("multi-grid-equation")
        if not e["grids"]:
            labels.add("equation-on-no-grid")
        if e["on"] == "intf":
            labels.add("interface-equation")
        if e["per"].get("faces", 0) or e["per"].get("nodes", 0):
            labels.add("face-or-node-rows")
        if bb["tsize"] != bb["m"]:
            labels.add("lifted")
        if bb["base"] is None and bb["m"]:
            labels.add("pure-tree-equation")
    if not model:
        labels.add("no-equation-left")
    allv = np.concatenate(vals) if vals else np.zeros(0)
    if not np.all(np.isfinite(allv)) or (allv.size and np.max(np.abs(allv)) > 1e8) or \
            any((not np.all(np.isfinite(J))) or (J.size and np.max(np.abs(J)) > 1e10) for J in jacs):
        return {"labels": ["discarded-nonfinite"], "nontrivial": False}
    labels.add("evaluated")
    names = [e["name"] for e in model]
    sizes = [v.size for v in vals]
    starts = np.concatenate(([0], np.cumsum(sizes))).astype(int)

    def kw():
        return {} if state is None else {"state": state.copy()}

    # ---------------------------------------------------------------- full system vs mirror
    with np.errstate(all="ignore"):
        A, b = es.assemble(**kw())
    A_exp = np.vstack(jacs) if jacs else np.zeros((0, n))
    require(A.shape == A_exp.shape, "full-shape", f"assemble() has shape {A.shape}, expected {A_exp.shape}")
    Af = A.toarray()
    require_close(Af, A_exp, "full-jacobian", rtol=1e-11, atol=1e-12, what="assemble() vs stacked mirror Jacobians in set order")
    require_close(b, -allv, "full-residual", rtol=1e-11, atol=1e-12, what="assemble() rhs vs stacked mirror values in set order")
    idx_now = {k: np.asarray(v).copy() for k, v in es.assembled_equation_indices.items()}
    require(set(idx_now) == set(names), "full-indices-keys", f"{sorted(idx_now)} vs {sorted(names)}")
    for k, nm in enumerate(names):
        require_equal(idx_now[nm], np.arange(starts[k], starts[k + 1]), "full-indices", f"assembled_equation_indices[{nm}]")

    # ---------------------------------------------------------------- requests
    nontrivial = False
    for req in spec["requests"]:
        er, vr = req["eq"], req["var"]
        # equations: argument and expected rows
        chosen = {}  # eq idx -> set of grids or None
        if er is None:
            eq_arg = None
            chosen = {k: None for k in range(len(names))}
            labels.add("eq-none")
        elif er["kind"] in ("names", "ops"):
            eq_arg = [names[k] if er["kind"] == "names" else ops[k] for k in er["list"]]
            chosen = {k: None for k in er["list"]}
            labels.add("eq-" + er["kind"])
            if not er["list"]:
                labels.add("eq-empty-list")
            if er["list"] != sorted(er["list"]):
                labels.add("request-not-in-set-order")
                nontrivial = True
        else:
            eq_arg = {}
            for k, how, grids in er["items"]:
                pool = S.sds if model[k]["on"] == "sd" else S.intfs
                eq_arg[names[k] if how == "name" else ops[k]] = [pool[g] for g in grids]
                chosen[k] = set(grids)
                if set(grids) != set(model[k]["grids"]):
                    labels.add("strict-grid-restriction")
                    nontrivial = True
                if not grids and model[k]["grids"]:
                    labels.add("restricted-to-no-grid")
                gk = sorted(model[k]["grids"])
                pos_ = sorted(gk.index(g) for g in grids)
                if pos_ and pos_ != list(range(pos_[0], pos_[0] + len(pos_))) and all(b for _, b in blocks[k]):
                    labels.add("restriction-non-contiguous-rows")
                if len(grids) >= 2 and grids != sorted(grids):
                    labels.add("restriction-grids-unordered")
            labels.add("eq-dict")
            order = [it[0] for it in er["items"]]
            if order != sorted(order):
                labels.add("request-not-in-set-order")
                nontrivial = True
        rows, exp_idx, pos = [], {}, 0
        for k in range(len(names)):  # the order in which the equations were set
            if k not in chosen:
                continue
            loc, off = [], 0
            for g, bs in blocks[k]:  # md order
                if chosen[k] is None or g in chosen[k]:
                    loc.extend(range(off, off + bs))
                off += bs
            rows.extend(starts[k] + r for r in loc)
            exp_idx[names[k]] = np.arange(pos, pos + len(loc))
            pos += len(loc)
        rows = np.array(rows, dtype=int)

        # variables: argument and expected columns
        if vr is None:
            var_arg, cols = None, np.arange(n)
            labels.add("var-none")
        elif vr["kind"] == "empty":
            var_arg, cols = [], np.zeros(0, dtype=int)
            labels.add("var-empty")
        else:
            if vr["kind"] == "names":
                var_arg = [spec["vars"][vi]["name"] for vi in vr["list"]]
                atoms = [sv for vi in vr["list"] for sv in S.mdvars[vi].sub_vars]
            elif vr["kind"] == "md":
                var_arg = [S.mdvars[vi] for vi in vr["list"]]
                atoms = [sv for vi in vr["list"] for sv in S.mdvars[vi].sub_vars]
            else:
                var_arg = [S.mdvars[vi].sub_vars[si] for vi, si in vr["list"]]
                atoms = list(var_arg)
            labels.add("var-" + vr["kind"])
            cols = np.sort(np.concatenate([es.dofs_of([a]) for a in atoms])).astype(int)
            if cols.size < n and not np.array_equal(cols, np.arange(cols.size)):
                labels.add("var-strict-not-prefix")
                nontrivial = True

        # residual only, first: must not touch the recorded indices
        with np.errstate(all="ignore"):
            b_only = es.assemble(evaluate_jacobian=False, equations=eq_arg, variables=var_arg, **kw())
        require(not isinstance(b_only, tuple), "residual-only-type", "assemble(evaluate_jacobian=False) returned a tuple")
        require_close(np.asarray(b_only), b[rows], "residual-only", rtol=1e-11, atol=1e-12,
                      what="assemble(evaluate_jacobian=False) vs rows of the full residual")
        after = es.assembled_equation_indices
        require(set(after) == set(idx_now) and all(np.array_equal(after[k], idx_now[k]) for k in idx_now),
                "residual-only-changed-indices", "assembled_equation_indices changed by a residual-only assembly")

        with np.errstate(all="ignore"):
            A_sub, b_sub = es.assemble(equations=eq_arg, variables=var_arg, **kw())
        require(A_sub.shape == (rows.size, cols.size), "sub-shape",
                f"restricted system has shape {A_sub.shape}, expected {(rows.size, cols.size)}")
        require(np.asarray(b_sub).shape == (rows.size,), "sub-rhs-shape", f"{np.asarray(b_sub).shape} vs {(rows.size,)}")
        require_close(A_sub.toarray(), Af[rows][:, cols], "sub-jacobian", rtol=1e-13, atol=0.0,
                      what="restricted Jacobian vs A_full[rows][:, cols]")
        require_close(b_sub, b[rows], "sub-residual", rtol=1e-13, atol=0.0, what="restricted residual vs b_full[rows]")
        idx_now = {k: np.asarray(v).copy() for k, v in es.assembled_equation_indices.items()}
        require(set(idx_now) == set(exp_idx), "sub-indices-keys",
                f"assembled_equation_indices has {sorted(idx_now)}, requested {sorted(exp_idx)}")
        for nm, ix in exp_idx.items():
            require_equal(idx_now[nm], ix, "sub-indices", f"assembled_equation_indices[{nm}]")
    labels |= {k for k in B.kinds if k in ("shift", "proj", "fn", "tda")}
    return {"labels": sorted(labels), "nontrivial": bool(nontrivial)}
