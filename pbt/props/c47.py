"""C47 Fracture network (csv) and named data (txt) files round-trip.

Spec kinds
* {"kind": "net2d", "scale", "nodes": [[ix, iy], ...], "jitter": [[jx, jy], ...], "fracs": [[a, b], ...],
   "header": bool, "domain": bool, "via": "direct"|"tagcols"|"polyline", "tags": [[...], ...], "polys"?: [[...], ...],
   "max_fracs": null|k, "frac_id": bool, "tol": null|float}
  point k = ((ix_k + jx_k) * scale, (iy_k + jy_k) * scale); fracture = segment between two distinct pool points.
* {"kind": "net3d", "polys": [poly, ...], "domain": bool, "convexity": bool} with
  poly = {"type": "ellipse", "n", "jit": [...], "a", "b", "theta", "phi", "psi", "c": [x, y, z]}   (vertices on an
          ellipse in an arbitrarily oriented plane, angular jitter < 0.3 of the regular spacing -> strictly convex)
       | {"type": "rect", "axis", "lo": [u, v], "sz": [du, dv], "w"}             (axis-aligned rectangle, dyadic)
* {"kind": "txt", "names": [...], "cols": [[v, ...], ...], "prec": [p, ...], "ints": [bool, ...]}
  prec p -> format "%.{p}e" (p = 2 means: the default format of TxtData, "%2.2e", is used).

All files are written under os.environ["VERIF_SCRATCH"] and removed again.
"""
from __future__ import annotations

import math
import os
import shutil
from pathlib import Path

import numpy as np
from hypothesis import strategies as st

from ..core import ROOT, HarnessError, require, require_equal

ID = "C47"
RULE = (
    "Hypothesis draws one of three round trips. net2d: 1..5 line fractures between 2..8 pool points (lattice nodes "
    "+ float jitter, scale 1e-2/1/1e3, shared end points allowed), with/without header line, with/without Domain; the "
    "network to be written is built directly from LineFractures carrying 0..3 tags each (values -1, 0, 1, 2, 7, 1000), "
    "or imported from a check-written csv with tag columns (tagcols=...), or imported from a check-written polyline "
    "csv (polyline=True) - both imports are compared with the generated geometry, ids and tags first; then "
    "FractureNetwork2d.to_csv -> network_2d_from_csv with max_num_fracs (0..n), return_frac_id, tol (default, 1e-10, "
    "1e-6) and skip_header as drawn: the first max_num_fracs fractures and ids 0..k-1 are expected. net3d: 1..4 planar convex polygons with 3..6 vertices (points on "
    "an arbitrarily oriented ellipse, or axis-aligned dyadic rectangles), optionally with tag attributes, with/without Domain line, tol default or 1e-6; "
    "FractureNetwork3d.to_csv -> network_3d_from_csv. txt: 1..4 uniquely named columns x 1..8 rows, magnitudes 0 or "
    "1e-8..1e8, float or integer arrays, per-column format %.17e / %.8e / %5.3e / default %2.2e; export_data_to_txt -> "
    "read_data_from_txt. Oracle: the geometry / arrays the spec was built from: same number of fractures, end points "
    "exactly equal (fractures matched as a multiset, end points unordered), polygons exactly equal up to cyclic shift "
    "and reversal, Domain bounding box equal, same names, arrays equal exactly (%.17e) or to half a unit of the last "
    "printed digit (relative 0.5*10^-p). Non-trivial = >= 2 fractures, or >= 2 values in total; distinct = hash of spec. Half of the 3-d networks are modified between construction and writing (fracture.pts reassigned, PlaneFracture.add_points) and compared as they stand when written."
)
BUDGET = {"quick": {"cases": 2400, "seconds": 40}, "thorough": {"cases": 60000, "seconds": 1100}}
TECHNIQUE = "property-based testing (Hypothesis): write/read round trip against the generated geometry and arrays"
LEVEL_TEXT = ("Exploration: thousands of generated 2-d and 3-d fracture networks and named array sets per run are "
              "written with to_csv / export_data_to_txt into a scratch directory, read back with network_2d_from_csv / "
              "network_3d_from_csv / read_data_from_txt and compared with the generated geometry and arrays (exact "
              "for coordinates and full-precision formats, to the printed precision for shorter formats).")
LEVEL_NOTE = ("Networks are small (<= 5 line fractures, <= 4 polygons); distinct points are separated by much more "
              "than the merge tolerances of the reader; the sympy convexity check of the 3-d reader is exercised on a "
              "small share of the cases only (0.15 s per polygon). Finds violations, does not prove absence.")
DESIGN_REF = "DESIGN.md section 4, C47"
ASSUMPTIONS = [
    "distinct fracture end points differ by >= 0.5*scale in a coordinate (scale 1e-2..1e3), far above the merge tolerance 1e-8 of the 2-d reader; no zero-length fractures, no duplicated fractures",
    "3-d fractures are planar, strictly convex polygons; vertex order is representation (PlaneFracture re-sorts), so polygons are compared up to cyclic shift and reversal",
    "2-d csv: the file is read with skip_header matching with_header; the Domain is not part of the 2-d file format (it is passed to the reader) and is part of the 3-d format only when given to to_csv",
    "tags are not part of the csv formats written by to_csv (FID + coordinates / coordinates only): a tagged network must round-trip its geometry, nothing is demanded of the tags after the round trip",
    "polyline files list the points of one fracture id in consecutive rows",
    "txt: 1-d arrays of equal length >= 1, names without white space that do not start with '#'; a format with p printed decimals may lose everything beyond relative 0.5*10^-p (caller's choice)",
    "txt single row: the reader returns 0-d values; only the values are compared then (shape (1,) vs () is not counted as a violation)",
]
REQUIRED = {
    "net2d": 0.2, "net3d": 0.1, "txt": 0.25, "csv-tagged": 0.08, "2d-via-direct": 0.06, "2d-via-tagcols": 0.04,
    "2d-via-polyline": 0.015, "2d-max-num-fracs": 0.025, "2d-return-frac-id": 0.06, "3d-tagged": 0.03, "csv-3d-modified-before-write": 0.025,
    "2d-shared-endpoint": 0.04, "2d-header": 0.06, "2d-noheader": 0.06, "2d-domain": 0.06,
    "3d-domain": 0.04, "3d-nodomain": 0.04, "3d-ellipse": 0.06, "3d-rect": 0.04,
    "txt-multi-column": 0.15, "txt-single-row": 0.03, "txt-exact-format": 0.1, "txt-default-format": 0.1,
}

FINDING_SINGLE_COLUMN = "C47-read-txt-single-column"


# ----------------------------------------------------------------------------- strategies
_jit = st.one_of(st.just(0.0), st.floats(-0.25, 0.25, allow_nan=False, allow_subnormal=False))
_WORDS = ["pressure", "flux", "cell_diameter", "time_step", "error_var_0", "error_var_1", "T", "x", "rho_w",
          "displacement_l2", "a1", "Q"]
_LETTERS = "abcdefghijklmnopqrstuvwxyzABCDEFGHIJKLMNOPQRSTUVWXYZ_"
_name = st.one_of(st.sampled_from(_WORDS),
                  st.builds(lambda a, b: a + b, st.sampled_from(list(_LETTERS)),
                            st.text(alphabet=_LETTERS + "0123456789.-", max_size=8)))
_mag = st.builds(lambda m, e, sgn: sgn * m * 10.0 ** e, st.floats(1.0, 9.999999, allow_nan=False),
                 st.integers(-8, 7), st.sampled_from([-1.0, 1.0]))
_val = st.one_of(st.just(0.0), st.integers(-1000, 1000).map(float), _mag,
                 st.floats(-1e3, 1e3, allow_nan=False, allow_subnormal=False))


_tag = st.sampled_from([-1, -1, 0, 1, 2, 7, 1000])


@st.composite
def _net2d(draw):
    nodes = draw(st.lists(st.tuples(st.integers(-10, 10), st.integers(-10, 10)), unique=True, min_size=2, max_size=8))
    k = len(nodes)
    jitter = [[draw(_jit), draw(_jit)] for _ in range(k)]
    via = draw(st.sampled_from(["direct", "direct", "direct", "tagcols", "tagcols", "polyline"]))
    spec = {"kind": "net2d", "scale": draw(st.sampled_from([0.01, 1.0, 1000.0])), "nodes": [list(n) for n in nodes],
            "jitter": jitter, "header": draw(st.booleans()), "domain": draw(st.booleans()), "via": via}
    if via == "polyline":
        # polylines through 2..4 distinct pool points; a polyline that would repeat an existing segment is dropped
        polys, seen = [], set()
        for _ in range(draw(st.integers(1, 3))):
            idx = draw(st.lists(st.integers(0, k - 1), unique=True, min_size=2, max_size=min(4, k)))
            segs = [(min(a, b), max(a, b)) for a, b in zip(idx[:-1], idx[1:])]
            if polys and (seen & set(segs)):
                continue
            seen.update(segs)
            polys.append(idx)
        spec["polys"] = polys
        spec["fracs"] = [[a, b] for pl in polys for a, b in zip(pl[:-1], pl[1:])]
        spec["tags"] = [[] for _ in spec["fracs"]]
    else:
        pairs = draw(st.lists(st.tuples(st.integers(0, k - 1), st.integers(0, k - 1)).filter(lambda t: t[0] != t[1]),
                              unique_by=lambda t: (min(t), max(t)), min_size=1, max_size=min(5, k * (k - 1) // 2)))
        spec["fracs"] = [list(p) for p in pairs]
        tagged = via == "tagcols" or draw(st.booleans())
        ntag = draw(st.integers(1, 3)) if tagged else 0
        if via == "tagcols":
            # a csv file has the same number of tag columns in every row
            spec["tags"] = [[draw(_tag) for _ in range(ntag)] for _ in pairs]
        else:
            spec["tags"] = [[draw(_tag) for _ in range(draw(st.integers(0, ntag)))] for _ in pairs]
    n = len(spec["fracs"])
    spec["max_fracs"] = draw(st.one_of(st.none(), st.none(), st.integers(0, n)))
    spec["frac_id"] = draw(st.booleans())
    spec["tol"] = draw(st.sampled_from([None, None, 1e-10, 1e-6]))
    return spec


@st.composite
def _poly(draw):
    if draw(st.integers(0, 2)) == 0:
        return {"type": "rect", "axis": draw(st.integers(0, 2)),
                "lo": [draw(st.integers(-16, 16)) / 4.0, draw(st.integers(-16, 16)) / 4.0],
                "sz": [draw(st.integers(1, 16)) / 4.0, draw(st.integers(1, 16)) / 4.0],
                "w": draw(st.integers(-16, 16)) / 4.0}
    n = draw(st.integers(3, 6))
    fl = lambda a, b: st.floats(a, b, allow_nan=False, allow_subnormal=False)  # noqa: E731
    return {"type": "ellipse", "n": n, "jit": [draw(fl(-1.0, 1.0)) for _ in range(n)], "a": draw(fl(0.5, 2.0)),
            "b": draw(fl(0.5, 2.0)), "theta": draw(fl(0.0, math.pi)), "phi": draw(fl(0.0, 2 * math.pi)),
            "psi": draw(fl(0.0, 2 * math.pi)), "c": [draw(fl(-3.0, 3.0)) for _ in range(3)]}


@st.composite
def _net3d(draw):
    convexity = draw(st.integers(0, 24)) == 0
    polys = draw(st.lists(_poly(), min_size=1, max_size=2 if convexity else 4))
    tagged = draw(st.booleans())
    tags = [[draw(_tag) for _ in range(draw(st.integers(0, 3)))] if tagged else [] for _ in polys]
    # fractures modified between construction of the network and writing it
    modify = []
    mod_any = draw(st.booleans())
    for pl in polys:
        kind = draw(st.sampled_from(["none", "shift", "addmid"])) if mod_any else "none"
        if kind == "shift":
            modify.append({"op": "shift", "v": [draw(st.integers(-8, 8)) / 4.0 for _ in range(3)],
                           "f": draw(st.sampled_from([1.0, 0.5, 2.0]))})
        elif kind == "addmid":
            nv = 4 if pl["type"] == "rect" else pl["n"]
            modify.append({"op": "addmid", "edge": draw(st.integers(0, nv - 1))})
        else:
            modify.append(None)
    if any(m is not None and m["op"] == "addmid" for m in modify):
        convexity = False  # a vertex on an edge: weakly convex, leave sympy's strict test out of it
    return {"kind": "net3d", "polys": polys, "domain": draw(st.booleans()), "convexity": convexity, "tags": tags,
            "modify": modify,
            "tol": draw(st.sampled_from([None, None, 1e-6]))}


@st.composite
def _txt(draw):
    ncol = draw(st.sampled_from([1, 2, 2, 3, 3, 4]))
    nrow = draw(st.sampled_from([1, 2, 3, 4, 5, 8]))
    names = draw(st.lists(_name, unique=True, min_size=ncol, max_size=ncol))
    ints = [draw(st.integers(0, 4)) == 0 for _ in range(ncol)]
    cols = []
    for c in range(ncol):
        if ints[c]:
            cols.append([float(draw(st.integers(-10 ** 6, 10 ** 6))) for _ in range(nrow)])
        else:
            cols.append([draw(_val) for _ in range(nrow)])
    prec = [draw(st.sampled_from([17, 17, 8, 3, 2, 2])) for _ in range(ncol)]
    return {"kind": "txt", "names": names, "cols": cols, "prec": prec, "ints": ints}


def strategy(tier):
    return st.one_of(_net2d(), _net2d(), _net3d(), _txt(), _txt())


# ----------------------------------------------------------------------------- known finding
def _known_single_column(s):
    """read_data_from_txt of a file with a single column (any number of rows)."""
    return s.get("kind") == "txt" and len(s["cols"]) == 1


KNOWN = {FINDING_SINGLE_COLUMN: _known_single_column}


# ----------------------------------------------------------------------------- helpers
class _Scratch:
    """Directory for the files of one case: below VERIF_SCRATCH when the runner provides it (workers), otherwise
    (replay of a witness inside the runner process) a private directory below /verif/.scratch that is removed."""

    def __enter__(self):
        base = os.environ.get("VERIF_SCRATCH")
        self.own = None
        if base:
            self.dir = Path(base)
            if not self.dir.is_dir():
                raise HarnessError(f"VERIF_SCRATCH={base} is not a directory")
        else:
            self.own = ROOT / ".scratch" / f"c47-replay-{os.getpid()}"
            self.own.mkdir(parents=True, exist_ok=True)
            self.dir = self.own
        return self.dir

    def __exit__(self, *exc):
        if self.own is not None:
            shutil.rmtree(self.own, ignore_errors=True)
            try:
                (ROOT / ".scratch").rmdir()
            except OSError:
                pass
        return False


def _points2d(s):
    return [((n[0] + j[0]) * s["scale"], (n[1] + j[1]) * s["scale"]) for n, j in zip(s["nodes"], s["jitter"])]


def _poly_vertices(p):
    """3 x n vertex array of a polygon spec."""
    if p["type"] == "rect":
        u0, v0 = p["lo"]
        du, dv = p["sz"]
        uv = [(u0, v0), (u0 + du, v0), (u0 + du, v0 + dv), (u0, v0 + dv)]
        other = [i for i in range(3) if i != p["axis"]]
        pts = np.zeros((3, 4))
        pts[p["axis"], :] = p["w"]
        for k, (u, v) in enumerate(uv):
            pts[other[0], k] = u
            pts[other[1], k] = v
        return pts
    n = p["n"]
    th, ph, ps = p["theta"], p["phi"], p["psi"]
    nrm = np.array([math.sin(th) * math.cos(ph), math.sin(th) * math.sin(ph), math.cos(th)])
    e1 = np.array([math.cos(th) * math.cos(ph), math.cos(th) * math.sin(ph), -math.sin(th)])
    e2 = np.cross(nrm, e1)
    t1 = math.cos(ps) * e1 + math.sin(ps) * e2
    t2 = -math.sin(ps) * e1 + math.cos(ps) * e2
    pts = np.zeros((3, n))
    for k in range(n):
        ang = 2 * math.pi * (k + 0.3 * p["jit"][k]) / n
        pts[:, k] = np.array(p["c"]) + p["a"] * math.cos(ang) * t1 + p["b"] * math.sin(ang) * t2
    return pts


def _same_polygon(a, b):
    """Exact equality of 3 x n vertex arrays up to cyclic shift and reversal."""
    if a.shape != b.shape:
        return False
    n = a.shape[1]
    for cand in (b, b[:, ::-1]):
        for sh in range(n):
            if np.array_equal(a, np.roll(cand, sh, axis=1)):
                return True
    return False


def _match_multiset(expected, got, same):
    """Every expected item matched with a distinct got item."""
    free = list(range(len(got)))
    for e in expected:
        hit = next((j for j in free if same(e, got[j])), None)
        if hit is None:
            return False
        free.remove(hit)
    return not free


# ----------------------------------------------------------------------------- check
def check(s):
    kind = s["kind"]
    with _Scratch() as d:
        if kind == "net2d":
            return _check_net2d(s, d)
        if kind == "net3d":
            return _check_net3d(s, d)
        if kind == "txt":
            return _check_txt(s, d)
    raise HarnessError(f"unknown kind {kind}")


def _segset(p, q):
    return frozenset([(float(p[0]), float(p[1])), (float(q[0]), float(q[1]))])


def _compare_net2d(back, exp, tag, what):
    from porepy.fracs.fracture_network_2d import FractureNetwork2d

    require(isinstance(back, FractureNetwork2d), f"{tag}-type", f"{type(back)}")
    require(back.num_frac() == len(exp) and len(back.fractures) == len(exp), f"{tag}-count",
            f"{what}: {len(exp)} fractures expected, {back.num_frac()} / {len(back.fractures)} read")
    got = []
    for fr in back.fractures:
        require(fr.pts.shape == (2, 2), f"{tag}-frac-shape", f"{fr.pts.shape}")
        got.append(_segset(fr.pts[:, 0], fr.pts[:, 1]))
    require(_match_multiset(exp, got, lambda a, b: a == b), f"{tag}-fractures",
            lambda: f"{what}: fractures differ: expected {sorted(map(sorted, exp))}, read {sorted(map(sorted, got))}")
    # the private point / edge representation must describe the same segments
    got2 = [_segset(back._pts[:, e[0]], back._pts[:, e[1]]) for e in back._edges.T]
    require(_match_multiset(exp, got2, lambda a, b: a == b), f"{tag}-pts-edges",
            f"{what}: points / edges of the read network do not describe the expected fractures")


def _check_net2d(s, d):
    import porepy as pp
    from porepy.fracs import fracture_importer

    pts = _points2d(s)
    segs = [(pts[a], pts[b]) for a, b in s["fracs"]]
    exp_all = [_segset(p, q) for p, q in segs]
    tags = s.get("tags") or [[] for _ in segs]
    via = s.get("via", "direct")
    dom = None
    if s["domain"]:
        m = 11.0 * s["scale"]
        dom = pp.Domain({"xmin": -m, "xmax": m, "ymin": -m, "ymax": 1.5 * m})
    labels = ["net2d", "2d-header" if s["header"] else "2d-noheader", f"2d-via-{via}"]
    if any(len(t) for t in tags):
        labels.append("csv-tagged")
    used = [i for pr in s["fracs"] for i in pr]
    if len(set(used)) < len(used):
        labels.append("2d-shared-endpoint")
    if s["domain"]:
        labels.append("2d-domain")

    f0, f = d / "net2d-source.csv", d / "net2d.csv"
    try:
        # ---- the network that is going to be written
        if via == "direct":
            fracs = [pp.LineFracture(np.array([[p[0], q[0]], [p[1], q[1]]], dtype=float), tags=(t if t else None))
                     for (p, q), t in zip(segs, tags)]
            net = pp.create_fracture_network(fracs, dom)
        elif via == "tagcols":
            # a csv with tag columns (written by the check), imported with tagcols=...
            ntag = len(tags[0])
            with open(f0, "w") as fh:
                fh.write("# FID,START_X,START_Y,END_X,END_Y" + "".join(f",TAG{i}" for i in range(ntag)) + "\n")
                for i, ((p, q), t) in enumerate(zip(segs, tags)):
                    fh.write(",".join([str(10 + i)] + [repr(float(v)) for v in (p[0], p[1], q[0], q[1])]
                                      + [str(int(v)) for v in t]) + "\n")
            net, ids0 = fracture_importer.network_2d_from_csv(f0, tagcols=list(range(5, 5 + ntag)), domain=dom,
                                                              return_frac_id=True)
            _compare_net2d(net, exp_all, "2d-tagcols-import", "import with tagcols")
            require_equal(np.asarray(ids0), np.arange(10, 10 + len(segs)), "2d-tagcols-ids", "fracture ids of the import")
            if ntag:
                require_equal(net._edges[2:2 + ntag].T, np.array(tags, dtype=int).reshape(len(segs), ntag),
                              "2d-tagcols-tags", "tag columns of the imported network")
        else:
            # polyline format: FID, X, Y per row
            with open(f0, "w") as fh:
                fh.write("# FID,PT_X,PT_Y\n")
                for i, pl in enumerate(s["polys"]):
                    for a in pl:
                        fh.write(f"{3 + 2 * i},{float(pts[a][0])!r},{float(pts[a][1])!r}\n")
            net, ids0 = fracture_importer.network_2d_from_csv(f0, polyline=True, domain=dom, return_frac_id=True)
            _compare_net2d(net, exp_all, "2d-polyline-import", "import with polyline=True")
            exp_ids = [3 + 2 * i for i, pl in enumerate(s["polys"]) for _ in range(len(pl) - 1)]
            require_equal(np.asarray(ids0), np.array(exp_ids), "2d-polyline-ids", "fracture ids of the polyline import")

        # ---- write with to_csv, read back with the documented options
        net.to_csv(f, with_header=s["header"])
        kw = {} if s["header"] else {"skip_header": 0}
        if s.get("max_fracs") is not None:
            kw["max_num_fracs"] = s["max_fracs"]
            labels.append("2d-max-num-fracs")
        if s.get("tol") is not None:
            kw["tol"] = s["tol"]
        if s.get("frac_id"):
            labels.append("2d-return-frac-id")
            back, ids = fracture_importer.network_2d_from_csv(f, domain=dom, return_frac_id=True, **kw)
        else:
            back, ids = fracture_importer.network_2d_from_csv(f, domain=dom, **kw), None
    finally:
        f.unlink(missing_ok=True)
        f0.unlink(missing_ok=True)

    nkeep = len(segs) if s.get("max_fracs") is None else min(s["max_fracs"], len(segs))
    _compare_net2d(back, exp_all[:nkeep], "2d", "csv round trip")
    if ids is not None:
        require_equal(np.asarray(ids), np.arange(nkeep), "2d-frac-ids", "fracture ids returned by the reader")
    if dom is not None and nkeep > 0:
        require(back.domain is not None and dict(back.domain.bounding_box) == dict(dom.bounding_box), "2d-domain",
                "domain passed to the reader not kept")
    return {"labels": labels, "nontrivial": len(segs) >= 2}


def _check_net3d(s, d):
    import porepy as pp
    from porepy.fracs import fracture_importer
    from porepy.fracs.fracture_network_3d import FractureNetwork3d

    verts = [_poly_vertices(p) for p in s["polys"]]
    fracs = [pp.PlaneFracture(v.copy()) for v in verts]
    tags3 = s.get("tags") or [[] for _ in verts]
    for fr, t in zip(fracs, tags3):
        if t:
            fr.tags = np.asarray(t, dtype=np.int32)  # the documented tag attribute of a fracture
    net = pp.create_fracture_network(fracs)
    # modifications after construction; `verts` follows, so that the oracle is the network as it stands when written
    modified = False
    for i, m in enumerate(s.get("modify") or []):
        if m is None:
            continue
        modified = True
        fr = net.fractures[i]
        if m["op"] == "shift":
            c = verts[i].mean(axis=1, keepdims=True)
            verts[i] = c + m["f"] * (verts[i] - c) + np.array(m["v"], dtype=float).reshape(3, 1)
            fr.pts = verts[i].copy()  # direct assignment to the public vertex array
        else:
            k = m["edge"] % verts[i].shape[1]
            k1 = (k + 1) % verts[i].shape[1]
            mid = 0.5 * (verts[i][:, k] + verts[i][:, k1])
            fr.add_points(mid.reshape(3, 1).copy(), check_convexity=False)
            verts[i] = np.insert(verts[i], k + 1, mid, axis=1)
    dom = None
    if s["domain"]:
        dom = pp.Domain({"xmin": -10.0, "xmax": 10.5, "ymin": -11.25, "ymax": 10.0, "zmin": -10.1, "zmax": 12.0})
    f = d / "net3d.csv"
    try:
        net.to_csv(f, domain=dom)
        kw = {} if s["convexity"] else {"check_convexity": False}
        if s.get("tol") is not None:
            kw["tol"] = s["tol"]
        back = fracture_importer.network_3d_from_csv(f, has_domain=dom is not None, **kw)
    finally:
        f.unlink(missing_ok=True)

    labels = ["net3d", "3d-domain" if s["domain"] else "3d-nodomain"]
    if any(len(t) for t in tags3):
        labels += ["3d-tagged", "csv-tagged"]
    if modified:
        labels.append("csv-3d-modified-before-write")
    labels += sorted({"3d-" + p["type"] for p in s["polys"]})
    if s["convexity"]:
        labels.append("3d-convexity-check")
    require(isinstance(back, FractureNetwork3d), "3d-type", f"{type(back)}")
    require(len(back.fractures) == len(verts), "3d-count", f"{len(verts)} written, {len(back.fractures)} read")
    got = [np.asarray(fr.pts, dtype=float) for fr in back.fractures]
    require(_match_multiset(verts, got, _same_polygon), "3d-fractures",
            lambda: f"polygons differ after csv round trip: written {[v.tolist() for v in verts]}, read {[g.tolist() for g in got]}")
    if dom is not None:
        require(back.domain is not None, "3d-domain-missing", "domain line not read")
        bb = {k: float(v) for k, v in back.domain.bounding_box.items()}
        require(bb == {k: float(v) for k, v in dom.bounding_box.items()}, "3d-domain", f"{bb}")
    else:
        require(back.domain is None, "3d-domain-spurious", "a domain was read although none was written")
    return {"labels": labels, "nontrivial": len(verts) >= 2}


def _check_txt(s, d):
    from porepy.utils.txt_io import TxtData, export_data_to_txt, read_data_from_txt

    ncol, nrow = len(s["cols"]), len(s["cols"][0])
    data, arrays = [], []
    for name, col, p, is_int in zip(s["names"], s["cols"], s["prec"], s["ints"]):
        arr = np.array([int(v) for v in col], dtype=int) if is_int else np.array(col, dtype=float)
        arrays.append(arr)
        if p == 2:
            data.append(TxtData(header=name, array=arr))  # default format "%2.2e"
        elif p == 3:
            data.append(TxtData(header=name, array=arr, format="%5.3e"))
        else:
            data.append(TxtData(header=name, array=arr, format=f"%.{p}e"))
    f = d / "data.txt"
    try:
        export_data_to_txt(data, f)
        back = read_data_from_txt(f)
    finally:
        f.unlink(missing_ok=True)

    labels = ["txt", "txt-multi-column" if ncol > 1 else "txt-single-column"]
    if nrow == 1:
        labels.append("txt-single-row")
    if 17 in s["prec"]:
        labels.append("txt-exact-format")
    if 2 in s["prec"]:
        labels.append("txt-default-format")
    if any(s["ints"]):
        labels.append("txt-int-array")

    require(isinstance(back, dict), "txt-type", f"{type(back)}")
    require(list(back.keys()) == list(s["names"]), "txt-names", f"written {s['names']}, read {list(back.keys())}")
    for name, arr, p in zip(s["names"], arrays, s["prec"]):
        got = np.asarray(back[name], dtype=float)
        if nrow == 1 and got.ndim == 0:
            got = got.reshape(1)  # single row: 0-d values accepted, see ASSUMPTIONS
        exp = arr.astype(float)
        require(got.shape == exp.shape, "txt-shape", f"column {name!r}: written shape {exp.shape}, read {got.shape}")
        if p == 17:
            require_equal(got, exp, "txt-exact", f"column {name!r} (%.17e)")
        else:
            tol = (0.5 * 10.0 ** (-p) + 1e-15) * np.abs(exp)
            bad = np.abs(got - exp) > tol
            require(not np.any(bad), "txt-precision",
                    lambda: f"column {name!r} (p={p}): written {exp[bad][:3]}, read {got[bad][:3]}")
    return {"labels": labels, "nontrivial": ncol * nrow >= 2}
