"""C41 Interpolation tables are exact for multilinear functions.

Spec: {"kind": "values"|"gradient", "d", "low", "width", "npt", "coef", "pool", "batches"}.

* the box is [low, low + width] per axis, ``npt`` nodes per axis;
* ``coef`` lists the 2^d coefficients of f(x) = sum_m coef[m] * prod_{i in m} x_i (bit i of m set <=> x_i is a
  factor); for a *linear* f only the masks with <= 1 bit are non-zero;
* ``pool`` is a list of points, each point a list of d coordinate descriptors
  ["n", k, 0.0]  -> node k of the axis (k = npt-1 is the upper face of the box, k = 0 the lower face),
  ["c", k, t]    -> node_k + t * (node_{k+1} - node_k), t in [0, 1];
* ``batches`` are lists of indices into the pool (repeats allowed); each batch is one call.

kind "values": standard table == f and adaptive table == standard table at every point (values).
kind "gradient": gradient(axis) of both tables; for linear f it must equal the coefficient; standard and
adaptive gradients must agree for every f.
kind "history": "steps" = [{"arr": "fresh"|"same"|"modify", "op": "interp"|"grad", "axis", "idx"?, "cols"?}, ...]: the
query array lives on between the calls (same object, possibly modified in place) and is passed uncopied.
"""
from __future__ import annotations

import numpy as np
from hypothesis import strategies as st

from ..core import require, require_close

ID = "C41"
RULE = (
    "Hypothesis draws a parameter dimension d in 1..4, a box (low in [-4,4], width in [1,8] per axis, plain "
    "floats or dyadic values), 2..6 nodes per axis (2..4 for d=4), a coefficient tensor with all 2^d monomials "
    "(multilinear) or only the 1+d monomials of degree <= 1 (linear), a pool of 1..8 query points whose coordinates "
    "are grid nodes (incl. the lower and the upper face of the box) or lie inside a cell, 1..3 query batches "
    "that index the pool with repeats, and the base point of the adaptive table: lower corner, another node of the "
    "grid (interior / upper corner), a grid-aligned point up to 3 cells outside the box, an arbitrary unaligned point "
    "inside or outside the box, or the constructor's default (origin) - so that queries lie below, above and on both "
    "sides of the base point. Oracle: f evaluated directly from its coefficients (tolerance 1e-10 x "
    "sum_m |c_m| prod max|x_i|); gradient(axis) of a linear f equals the coefficient of that axis (1e-10 x scale / h); "
    "gradient(axis - d) (axis counted from the back) equals gradient(axis) unless the table refuses it; "
    "the AdaptiveInterpolationTable with the same resolution, queried batch by batch, equals the standard table "
    "(values, and gradients along every axis); any exception raised by either table for a point of the box "
    "(including the tables' internal AssertionErrors) is a violation. A third of the cases are query histories on one "
    "standard and one adaptive table: 3..7 interpolate / gradient(axis) calls whose query array is a fresh array, the "
    "same array object as before (unmodified), or the same object with columns replaced in place by other points of "
    "the box; after every call the result must match f (values), the coefficient (gradient of linear f) and - for any "
    "f - a reference table that only sees fresh copies, all evaluated at the content the caller gave the array. "
    "Non-trivial = d >= 2 or >= 3 distinct "
    "points, f not constant; distinct = hash of spec. Constructor arrays are also given as int64 / int32 (integer box corners with mostly fractional mesh size; npt int32; integer base point) whenever the dtype represents the numbers exactly."
)
BUDGET = {"quick": {"cases": 2400, "seconds": 40}, "thorough": {"cases": 80000, "seconds": 1100}}
TECHNIQUE = "property-based testing (Hypothesis): analytic oracle (multilinear functions) and differential standard vs adaptive table"
LEVEL_TEXT = ("Exploration: thousands of generated boxes, resolutions, multilinear / linear coefficient tensors and "
              "query points (cell interiors, grid nodes, lower and upper faces of the box) per run; interpolated "
              "values are compared with the function itself, gradients of linear functions with the coefficient, "
              "and the adaptive table (filled on demand over several query batches with repeated points) with the "
              "standard table.")
LEVEL_NOTE = ("Parameter dimension 1..4, scalar-valued functions only, moderately conditioned boxes (|x| <= 12, "
              "grid spacing >= 0.2); 2-d query arrays only. Tolerance based (1e-10 relative to the magnitude of "
              "the terms of f). Finds violations, does not prove absence.")
DESIGN_REF = "DESIGN.md section 4, C41"
ASSUMPTIONS = [
    "box coordinates are moderate (|x| <= 12, grid spacing >= 0.2) so that the cell search by floor division is well conditioned",
    "scalar-valued function (dim = 1); query points passed as a 2-d array (parameter dimension x number of points)",
    "the adaptive table is given the function and the resolution (high-low)/(npt-1); its base point is any point of parameter space (the docstring only says 'a point in the underlying grid') or the default None",
]
REQUIRED = {
    "box-int-dtype": 0.1, "box-int-dtype-fractional-h": 0.06,
    "kind-values": 0.2, "kind-gradient": 0.2, "grad-negative-axis": 0.15, "query-history": 0.15, "same-array-modified-in-place": 0.12,
    "same-array-unmodified": 0.06, "hist-interp-after-modify": 0.08, "hist-grad-after-modify": 0.04, "f-linear": 0.2, "f-multilinear": 0.2,
    "d1": 0.08, "d2": 0.15, "d3": 0.15, "d4": 0.05,
    "pt-upper-face": 0.2, "pt-lower-face": 0.2, "pt-node": 0.2, "pt-interior": 0.3,
    "multi-batch": 0.3, "repeat-query": 0.15, "box-float": 0.2, "box-dyadic": 0.25,
    "adaptive-base-low": 0.07, "adaptive-base-interior": 0.08, "adaptive-base-upper": 0.07, "adaptive-base-shift": 0.07,
    "adaptive-base-free": 0.07, "adaptive-base-default": 0.003, "adaptive-query-below-base": 0.25,
    "adaptive-query-both-sides": 0.15,
}

FINDING_UPPER = "C41-gradient-upper-boundary"
FINDING_DEFAULT_BASE = "C41-adaptive-default-base-point-multi-parameter"


# ----------------------------------------------------------------------------- strategy
_dyadic_low = st.integers(-32, 32).map(lambda k: k / 8.0)
_dyadic_width = st.integers(8, 64).map(lambda k: k / 8.0)
_float_low = st.floats(-4.0, 4.0, allow_nan=False, allow_infinity=False, allow_subnormal=False)
_float_width = st.floats(1.0, 8.0, allow_nan=False, allow_infinity=False)
_frac = st.one_of(st.sampled_from([0.0, 0.5, 1.0]), st.floats(0.0, 1.0, allow_nan=False, allow_subnormal=False))
_coef = st.one_of(st.integers(-5, 5).map(float), st.floats(-5.0, 5.0, allow_nan=False, allow_subnormal=False))


@st.composite
def _spec(draw):
    kind = draw(st.sampled_from(["values", "gradient"]))
    d = draw(st.sampled_from([1, 2, 2, 3, 3, 4]))
    boxkind = draw(st.sampled_from(["dyadic", "float", "float", "int", "int"]))
    dyadic = boxkind != "float"
    if boxkind == "int":
        # integer corners (so that integer-dtype arrays can carry them); the mesh size is mostly not an integer
        low = [float(draw(st.integers(-4, 4))) for _ in range(d)]
        width = [float(draw(st.integers(1, 8))) for _ in range(d)]
    else:
        low = [draw(_dyadic_low if dyadic else _float_low) for _ in range(d)]
        width = [draw(_dyadic_width if dyadic else _float_width) for _ in range(d)]
    dtypes = {"box": draw(st.sampled_from(["float64", "int64", "int64", "int32"])),
              "npt": draw(st.sampled_from(["int64", "int32"])),
              "base": draw(st.sampled_from(["float64", "int64"]))}
    npt = [draw(st.integers(2, 6 if d < 4 else 4)) for _ in range(d)]
    linear = draw(st.booleans())
    coef = []
    for m in range(2 ** d):
        if linear and bin(m).count("1") > 1:
            coef.append(0.0)
        else:
            coef.append(draw(_coef))
    # gradient queries on the upper face of the box are confined to a quarter of the gradient specs (they are a
    # class of their own: the base vertex of the cell search is the last node of the axis)
    upper_ok = kind == "values" or draw(st.integers(0, 3)) == 0
    classes = ["interior", "node", "upper", "lower"] if upper_ok else ["interior", "node", "lower"]
    npool = draw(st.integers(1, 8))
    pool = []
    for _ in range(npool):
        pclass = draw(st.sampled_from(classes + ["mixed"]))
        pt = []
        forced = draw(st.integers(0, d - 1))
        for i in range(d):
            c = pclass
            if c == "mixed" or (c in ("upper", "lower") and i != forced):
                c = draw(st.sampled_from(classes))
            if c == "interior":
                # t = 1 in the last cell is the upper face as well
                k = draw(st.integers(0, npt[i] - 2))
                t = draw(_frac)
                if not upper_ok and k == npt[i] - 2 and t > 0.75:
                    t = 0.75
                pt.append(["c", k, t])
            elif c == "node":
                pt.append(["n", draw(st.integers(0, npt[i] - 1 if upper_ok else npt[i] - 2)), 0.0])
            elif c == "upper":
                pt.append(["n", npt[i] - 1, 0.0])
            else:
                pt.append(["n", 0, 0.0])
        pool.append(pt)
    # base point of the adaptive table: the lower corner (as InterpolatedFunction does), another node of the
    # standard grid (interior / upper corner), a grid-aligned point outside the box, an arbitrary (unaligned)
    # point inside or outside the box, or the documented default (None -> origin)
    amode = draw(st.sampled_from(["low", "low", "node", "node", "node", "upper", "upper", "shift", "shift", "free", "free",
                                   "default"]))
    abase = {"mode": amode,
             "k": [draw(st.integers(0, npt[i] - 1)) if amode == "node" else draw(st.integers(-3, npt[i] + 2))
                   for i in range(d)],
             "off": [draw(st.floats(-1.5, 2.5, allow_nan=False, allow_subnormal=False)) for _ in range(d)]}
    nb = draw(st.integers(1, 3))
    batches = [draw(st.lists(st.integers(0, npool - 1), min_size=1, max_size=6)) for _ in range(nb)]
    return {"kind": kind, "d": d, "low": low, "width": width, "npt": npt, "coef": coef, "pool": pool,
            "batches": batches, "abase": abase, "dtypes": dtypes}


@st.composite
def _history(draw):
    """One table pair, a sequence of interpolate / gradient calls in which the query array is a fresh array, the
    same array object as in the previous call, or the same object modified in place (columns replaced by other
    points of the box)."""
    s = draw(_spec())
    npool = len(s["pool"])
    d = s["d"]
    steps, cur = [], []
    for k in range(draw(st.integers(3, 7))):
        arr = "fresh" if k == 0 else draw(st.sampled_from(["fresh", "same", "modify", "modify", "modify"]))
        if arr == "modify" and npool == 1:
            arr = "same"
        step = {"arr": arr, "op": draw(st.sampled_from(["interp", "interp", "grad"])), "axis": draw(st.integers(0, d - 1))}
        if arr == "fresh":
            cur = draw(st.lists(st.integers(0, npool - 1), min_size=1, max_size=5))
            step["idx"] = list(cur)
        elif arr == "modify":
            # replace some (or all) columns of the array by other pool points, in place
            cols = draw(st.lists(st.integers(0, len(cur) - 1), unique=True, min_size=1, max_size=len(cur)))
            new = []
            for c in cols:
                j = draw(st.integers(0, npool - 2))
                j = j if j < cur[c] else j + 1  # a point different from the one in that column
                new.append(j)
                cur[c] = j
            step["cols"], step["idx"] = cols, new
        steps.append(step)
    s["kind"] = "history"
    s["steps"] = steps
    s["batches"] = [st_["idx"] for st_ in steps if "idx" in st_]
    return s


def strategy(tier):
    return st.one_of(_spec(), _spec(), _history())


# ----------------------------------------------------------------------------- helpers (pure numpy, no porepy)
def _box(s):
    low = np.array(s["low"], dtype=float)
    high = low + np.array(s["width"], dtype=float)
    npt = np.array(s["npt"], dtype=int)
    return low, high, npt


def _pool_points(s):
    """Coordinates of the pool points, d x npool."""
    low, high, npt = _box(s)
    axes = [np.linspace(low[i], high[i], npt[i]) for i in range(s["d"])]
    pts = np.zeros((s["d"], len(s["pool"])))
    for j, p in enumerate(s["pool"]):
        for i, (mode, k, t) in enumerate(p):
            if mode == "n":
                x = axes[i][k]
            else:
                x = axes[i][k] + t * (axes[i][k + 1] - axes[i][k])
                x = min(max(x, axes[i][k]), axes[i][k + 1])
            pts[i, j] = x
    return pts


def _f(coef, x):
    """sum_m coef[m] prod_{i in m} x_i; x is d x n (or d scalars)."""
    d = len(x)
    val = 0.0
    for m, c in enumerate(coef):
        if c == 0.0:
            continue
        term = c
        for i in range(d):
            if (m >> i) & 1:
                term = term * x[i]
        val = val + term
    return val


def _fscale(coef, low, high):
    mx = np.maximum(np.abs(low), np.abs(high))
    tot = 0.0
    for m, c in enumerate(coef):
        term = abs(c)
        for i in range(len(mx)):
            if (m >> i) & 1:
                term *= mx[i]
        tot += term
    return max(tot, 1e-300)


def _on_upper_face(s, pts):
    """Boolean per point: in some axis the cell search (x-low)//h lands on the last node."""
    low, high, npt = _box(s)
    h = (high - low) / (npt - 1)
    base = np.floor_divide(pts - low[:, None], h[:, None]).astype(int)
    return np.any(base >= (npt - 1)[:, None], axis=0)


def _known_upper(s):
    """Gradient queried at a point on the upper face of the box (base vertex = last node in some axis)."""
    if s.get("kind") != "gradient":
        return False
    pts = _pool_points(s)
    used = sorted({j for b in s["batches"] for j in b})
    return bool(np.any(_on_upper_face(s, pts[:, used])))


def _adaptive_base(s):
    """Base point of the adaptive table (None = the constructor's default), d-vector."""
    ab = s.get("abase") or {"mode": "low"}
    low, high, npt = _box(s)
    mode = ab["mode"]
    if mode == "default":
        return None
    if mode == "low":
        return low.copy()
    if mode == "upper":
        return high.copy()
    if mode == "node":
        return np.array([np.linspace(low[i], high[i], npt[i])[ab["k"][i]] for i in range(s["d"])])
    h = (high - low) / (npt - 1)
    if mode == "shift":
        return low + np.array(ab["k"], dtype=float) * h
    return low + np.array(ab["off"], dtype=float) * (high - low)


def _known_default_base(s):
    """Adaptive table built with the default base_point (None) for more than one parameter."""
    return (s.get("abase") or {}).get("mode") == "default" and s["d"] >= 2


KNOWN = {FINDING_UPPER: _known_upper, FINDING_DEFAULT_BASE: _known_default_base}


def _run_history(s, pp, table, adaptive, func, pts, coef, linear, fs, h):
    """Query history on one standard and one adaptive table with a query array that lives on.  The oracle of every
    call uses the content the *caller* gave the array (shadow copy kept by the check): the function itself for
    values, the coefficient for gradients of linear f, and - for every f - a reference table that only ever sees
    fresh copies (the answer may depend on the content of the array, not on its identity or on earlier calls)."""
    low, high, npt = _box(s)
    reference = pp.InterpolationTable(low.copy(), high.copy(), npt.copy(), func)
    labels = ["query-history"]
    xq = None       # the caller's array object, passed as it is to both tables
    shadow = None   # what the caller put into it
    for n, step in enumerate(s["steps"]):
        if step["arr"] == "fresh":
            shadow = pts[:, step["idx"]].copy()
            xq = shadow.copy()
        elif step["arr"] == "modify":
            for c, j in zip(step["cols"], step["idx"]):
                shadow[:, c] = pts[:, j]
                xq[:, c] = pts[:, j]  # in place: same object, new content
            labels.append("same-array-modified-in-place")
        else:
            labels.append("same-array-unmodified")
        where = f"step {n} ({step['arr']}, {step['op']}) of {[(t['arr'], t['op']) for t in s['steps']]}"
        ncol = shadow.shape[1]
        if step["op"] == "interp":
            exact = np.atleast_1d(_f(coef, shadow)) * np.ones(ncol)
            v = table.interpolate(xq)
            require(v.shape == (1, ncol), "hist-shape", f"{where}: {v.shape}")
            require_close(v[0], exact, "hist-interp-exact", rtol=1e-10, atol=0.0, scale=fs,
                          what=f"{where}: InterpolationTable.interpolate vs f at the current content of the array")
            va = adaptive.interpolate(xq)
            require(va.shape == (1, ncol), "hist-shape", f"{where}: {va.shape}")
            require_close(va[0], exact, "hist-adaptive-exact", rtol=1e-10, atol=0.0, scale=fs,
                          what=f"{where}: AdaptiveInterpolationTable.interpolate vs f at the current content")
            if step["arr"] == "modify":
                labels.append("hist-interp-after-modify")
        else:
            ax = step["axis"]
            gscale = fs / h[ax]
            ref = reference.gradient(shadow.copy(), ax)
            g = table.gradient(xq, ax)
            require(g.shape == (1, ncol), "hist-shape", f"{where}: {g.shape}")
            ga = adaptive.gradient(xq, ax)
            require(ga.shape == (1, ncol), "hist-shape", f"{where}: {ga.shape}")
            if linear:
                c = coef[1 << ax] * np.ones(ncol)
                require_close(g[0], c, "hist-grad-linear-exact", rtol=1e-10, atol=0.0, scale=gscale,
                              what=f"{where}: gradient(axis={ax}) vs coefficient")
                require_close(ga[0], c, "hist-adaptive-grad-linear-exact", rtol=1e-10, atol=0.0, scale=gscale,
                              what=f"{where}: adaptive gradient(axis={ax}) vs coefficient")
            require_close(g[0], ref[0], "hist-grad-depends-on-history", rtol=1e-10, atol=0.0, scale=gscale,
                          what=f"{where}: gradient(axis={ax}) differs from a table that sees a fresh copy of the same points")
            require_close(ga[0], ref[0], "hist-adaptive-grad-depends-on-history", rtol=1e-10, atol=0.0, scale=gscale,
                          what=f"{where}: adaptive gradient(axis={ax}) differs from a fresh standard table at the same points")
            if step["arr"] == "modify":
                labels.append("hist-grad-after-modify")
    return sorted(set(labels))


# ----------------------------------------------------------------------------- check
def check(s):
    import porepy as pp

    d = s["d"]
    low, high, npt = _box(s)
    coef = [float(c) for c in s["coef"]]
    linear = all(c == 0.0 for m, c in enumerate(coef) if bin(m).count("1") > 1)
    h = (high - low) / (npt - 1)
    fs = _fscale(coef, low, high)

    def func(*args):
        return _f(coef, args)

    dts = s.get("dtypes") or {"box": "float64", "npt": "int64", "base": "float64"}

    def cast(a, dt):
        """The same numbers in another dtype - only if that dtype represents them exactly."""
        b = np.asarray(a).astype(dt)
        return b if np.array_equal(b.astype(float), np.asarray(a, dtype=float)) else np.asarray(a).copy()

    low_a, high_a, npt_a = cast(low, dts["box"]), cast(high, dts["box"]), cast(npt, dts["npt"])
    dtype_labels = []
    if low_a.dtype.kind == "i" and high_a.dtype.kind == "i":
        dtype_labels.append("box-int-dtype")
        if np.any(h != np.round(h)):
            dtype_labels.append("box-int-dtype-fractional-h")
    elif low_a.dtype == np.float32:
        dtype_labels.append("box-float32-dtype")
    table = pp.InterpolationTable(low_a, high_a, npt_a, func)
    base = _adaptive_base(s)
    if base is None:
        adaptive = pp.AdaptiveInterpolationTable(dx=h.copy(), function=func, dim=1)
        base_eff = np.zeros(d)
    else:
        base_a = cast(base, dts["base"])
        if base_a.dtype.kind == "i":
            dtype_labels.append("adaptive-base-int-dtype")
        adaptive = pp.AdaptiveInterpolationTable(dx=h.copy(), base_point=base_a, function=func, dim=1)
        base_eff = base

    pts = _pool_points(s)
    labels = [f"kind-{s['kind']}", f"d{d}", "f-linear" if linear else "f-multilinear"] + dtype_labels
    amode = (s.get("abase") or {"mode": "low"})["mode"]
    if amode == "node":
        ks = s["abase"]["k"]
        interior = any(0 < ks[i] < s["npt"][i] - 1 for i in range(d))
        labels.append("adaptive-base-interior" if interior else "adaptive-base-corner-node")
    else:
        labels.append(f"adaptive-base-{amode}")
    used_all = sorted({j for b in s["batches"] for j in b})
    below = bool(np.any(pts[:, used_all] < base_eff[:, None]))
    above = bool(np.any(pts[:, used_all] > base_eff[:, None]))
    if below:
        labels.append("adaptive-query-below-base")
    if below and above:
        labels.append("adaptive-query-both-sides")
    labels.append("box-dyadic" if all(float(v * 8).is_integer() for v in s["low"] + s["width"]) else "box-float")
    used = sorted({j for b in s["batches"] for j in b})
    for j in used:
        modes = s["pool"][j]
        if any(m == "n" and k == s["npt"][i] - 1 for i, (m, k, t) in enumerate(modes)):
            labels.append("pt-upper-face")
        if any(m == "n" and k == 0 for (m, k, t) in modes):
            labels.append("pt-lower-face")
        if any(m == "n" for (m, k, t) in modes):
            labels.append("pt-node")
        if any(m == "c" and 0.0 < t < 1.0 for (m, k, t) in modes):
            labels.append("pt-interior")
    labels = sorted(set(labels))
    if len(s["batches"]) > 1:
        labels.append("multi-batch")
    seen = set()
    for b in s["batches"]:
        if any(j in seen for j in b) or len(set(b)) < len(b):
            labels.append("repeat-query")
            break
        seen.update(b)

    if s["kind"] == "history":
        labels += _run_history(s, pp, table, adaptive, func, pts, coef, linear, fs, h)
        return {"labels": labels, "nontrivial": True}

    for bi, b in enumerate(s["batches"]):
        x = pts[:, b]
        if s["kind"] == "values":
            exact = np.atleast_1d(_f(coef, x)) * np.ones(x.shape[1])
            v = table.interpolate(x.copy())
            require(v.shape == (1, x.shape[1]), "interp-shape", f"{v.shape}")
            require_close(v[0], exact, "interp-exact", rtol=1e-10, atol=0.0, scale=fs,
                          what=f"InterpolationTable.interpolate vs f, batch {bi}")
            va = adaptive.interpolate(x.copy())
            require(va.shape == (1, x.shape[1]), "adaptive-shape", f"{va.shape}")
            require_close(va[0], v[0], "adaptive-vs-standard", rtol=1e-10, atol=0.0, scale=fs,
                          what=f"AdaptiveInterpolationTable.interpolate vs InterpolationTable, batch {bi}")
            require_close(va[0], exact, "adaptive-exact", rtol=1e-10, atol=0.0, scale=fs,
                          what=f"AdaptiveInterpolationTable.interpolate vs f, batch {bi}")
        else:
            for ax in range(d):
                g = table.gradient(x.copy(), ax)
                require(g.shape == (1, x.shape[1]), "grad-shape", f"{g.shape}")
                ga = adaptive.gradient(x.copy(), ax)
                require(ga.shape == (1, x.shape[1]), "adaptive-grad-shape", f"{ga.shape}")
                gscale = fs / h[ax]
                if linear:
                    c = coef[1 << ax] * np.ones(x.shape[1])
                    require_close(g[0], c, "grad-linear-exact", rtol=1e-10, atol=0.0, scale=gscale,
                                  what=f"InterpolationTable.gradient(axis={ax}) vs coefficient, batch {bi}")
                    require_close(ga[0], c, "adaptive-grad-linear-exact", rtol=1e-10, atol=0.0, scale=gscale,
                                  what=f"AdaptiveInterpolationTable.gradient(axis={ax}) vs coefficient, batch {bi}")
                require_close(ga[0], g[0], "adaptive-grad-vs-standard", rtol=1e-10, atol=0.0, scale=gscale,
                              what=f"adaptive vs standard gradient(axis={ax}), batch {bi}")
                # the axis counted from the back (numpy convention): the same derivative, or a refusal - never a
                # silently different array
                for tb, nm in ((table, "InterpolationTable"), (adaptive, "AdaptiveInterpolationTable")):
                    try:
                        gn = tb.gradient(x.copy(), ax - d)
                    except (IndexError, ValueError, AssertionError, TypeError):
                        labels.append("grad-negative-axis-refused")
                        continue
                    require(gn.shape == g.shape, "grad-negative-axis-shape", f"{gn.shape}")
                    require_close(gn[0], g[0], "grad-negative-axis", rtol=1e-10, atol=0.0, scale=gscale,
                                  what=f"{nm}.gradient(axis={ax - d}) vs gradient(axis={ax}), batch {bi}")
                if "grad-negative-axis" not in labels:
                    labels.append("grad-negative-axis")

    nonconst = any(c != 0.0 for c in coef[1:])
    return {"labels": labels, "nontrivial": bool(nonconst and (d >= 2 or len(used) >= 3))}
