"""C27 Global projection operators are consistent permutations.

Spec: {"mdg": mdg_spec, "nm": 0|1|2|3, "nd": 1|2|3, "sds": [subdomain indices, ordered],
       "sub": [indices taken from sds, ordered], "intfs": [interface indices, ordered]}
Indices refer to mdg.subdomains() / mdg.interfaces() of the built md-grid.  `nm` selects a
non-matching variant of the md-grid (2-d only): 1 = every 1-d mortar grid refined by 2,
2 = every 1-d fracture grid replaced by its refinement by 2 (as in the repository test)."""
from __future__ import annotations

import numpy as np
from hypothesis import strategies as st

from ..core import canon, require, require_close, require_equal
from ..gen.mdgrids import build_mdg, mdg_spec
from ..gen.optrees import cached_mdg, grid_sizes

ID = "C27"
RULE = (
    "Hypothesis draws a fractured md-grid (pp.meshing.cart_grid, 2-d/3-d, 0-3 lattice fractures with X/T/L "
    "intersections), optionally made non-matching (all 1-d mortar grids refined, or all 1-d fracture grids replaced "
    "by refinements, or the 1-d mortar grids remeshed with one node more so that they are nested in neither neighbour), a vector dimension nd in 1..3, an ordered list L of distinct subdomains (any subset, any order, "
    "possibly empty or only 0-d), an ordered sub-list S of L and an ordered list of interfaces. Oracle, built with "
    "explicit index arithmetic (global index of component c of entity e of the j-th listed grid = "
    "(offset_j + e)*nd + c, offsets cumulative in LIST order): SubdomainProjections(L, nd).{cell,face}_restriction(S) "
    "equals the 0/1 selection matrix, prolongation its transpose, R(S)P(S)=I, [P(g) for g in L] = identity; "
    "MortarProjections(mdg, L, I, nd).x() for the eight projections equals the block matrix of intf.x(nd) placed at "
    "the face (primary) / cell (secondary) offset of the neighbour in L and the mortar-cell offset of intf in I "
    "(zero block when the neighbour is not in L), the eight projections requested from ONE object in a drawn order "
    "followed by repeated requests (results are cached per object), sign_of_mortar_sides = block diagonal; "
    "BoundaryProjection(mdg, L, nd): subdomain_to_boundary picks the domain-boundary faces (tag) of each listed "
    "grid in list order, boundary_to_subdomain is its transpose, their product is the identity on boundary cells. "
    "0/1 matrices compared exactly, mortar weights with atol 1e-9. "
    "History class (about a third of the cases with >= 2 listed grids): ONE SubdomainProjections object serves a sequence of "
    "2-20 steps: requests of the six kinds (cell/face restriction, prolongation, or both with R@P=I) with the caller's "
    "working list - one Python list object passed again and again -, requests with fresh list objects, and in-place "
    "mutations of the working list between requests (reverse, permutation by slice assignment, append, pop); the same "
    "kind is re-requested after a mutation two times out of three. Every answer is compared with the selection matrix of the "
    "list as it is at the time of the request. "
    "Non-trivial = at least two listed subdomains or two listed interfaces; distinct = hash of spec."
)
BUDGET = {"quick": {"cases": 4000, "seconds": 40}, "thorough": {"cases": 150000, "seconds": 1100}}
TECHNIQUE = "property-based testing (Hypothesis): comparison with explicitly indexed reference matrices"
LEVEL_TEXT = ("Exploration: thousands of (md-grid, grid list, order, vector dimension) combinations per run; every "
              "projection matrix is compared entry by entry with a reference assembled from cumulative offsets in list "
              "order; permuted, partial, empty and 0-d-only lists and non-matching interfaces are forced by the "
              "generator and their frequencies reported.")
LEVEL_NOTE = ("Md-grids come from cart_grid (all interfaces have codimension 1; codimension-2 / well interfaces are not "
              "generated). Per-interface mortar projections intf.x(nd) are taken as given (they are the subject of C26). "
              "Histories exercise SubdomainProjections only: MortarProjections / BoundaryProjection take their lists in the "
              "constructor, and mutating a constructor list afterwards has no documented meaning (the constructor is given a "
              "private copy). Whether returned operators are fresh objects is not asserted (not documented). "
              "Finds violations, does not prove absence.")
DESIGN_REF = "DESIGN.md section 4, C27"
ASSUMPTIONS = [
    "all listed interfaces have the same codimension (documented ValueError otherwise); only codimension 1 generated",
    "listed grids are distinct members of the md-grid (duplicates raise ValueError by documentation)",
    "sub-lists passed to restriction/prolongation are subsets of the constructor list (KeyError otherwise by design)",
]
REQUIRED = {"nd1": 0.15, "nd2": 0.15, "nd3": 0.12, "order-permuted": 0.2, "order-md": 0.1, "list-partial": 0.12,
            "list-full": 0.2, "list-has-0d": 0.07, "intf-permuted": 0.1, "neighbour-missing": 0.1, "nm1": 0.03,
            "nm2": 0.03, "nm3": 0.04, "mortar-request-order-permuted": 0.5, "mortar-nonconforming-primary": 0.02, "mdg-dim3": 0.1, "sub-permuted": 0.1, "history": 0.12, "history-inplace-mutation": 0.06,
            "history-repeat": 0.02, "history-fresh-list": 0.04}

MORTAR_METHODS = [
    # name, to_mortar, primary
    ("mortar_to_primary_int", False, True), ("mortar_to_primary_avg", False, True),
    ("primary_to_mortar_int", True, True), ("primary_to_mortar_avg", True, True),
    ("mortar_to_secondary_int", False, False), ("mortar_to_secondary_avg", False, False),
    ("secondary_to_mortar_int", True, False), ("secondary_to_mortar_avg", True, False),
]


# ------------------------------------------------------------------------------- strategy
@st.composite
def _ordered_subset(draw, n):
    """Ordered list of distinct indices < n: full permutation (3/9), full in md order (1/9), sorted subset (1/9),
    arbitrary subset in arbitrary order (4/9; empty allowed in a quarter of those)."""
    if n == 0:
        return []
    mode = draw(st.integers(0, 8))
    if mode <= 2:
        return list(draw(st.permutations(list(range(n)))))
    if mode == 3:
        return list(range(n))
    lo = 0 if draw(st.integers(0, 3)) == 0 else 1
    v = draw(st.lists(st.integers(0, n - 1), unique=True, min_size=lo, max_size=n))
    return sorted(v) if mode == 4 else v


@st.composite
def _spec(draw, tier):
    big = tier != "quick"
    mdg_s = draw(mdg_spec(dims=(2, 2, 3), max_n=4 if big else 3, max_n3=3 if big else 2, max_fracs=3,
                          min_fracs=0 if draw(st.integers(0, 7)) == 0 else 1, phys=False))
    nm = 0
    if mdg_s["dim"] == 2 and mdg_s["fracs"] and draw(st.integers(0, 2)) == 0:
        nm = draw(st.sampled_from([1, 2, 3, 3]))
    sd_sizes, intf_sizes = grid_sizes(mdg_s)
    ns, ni = len(sd_sizes), len(intf_sizes)
    sds = draw(_ordered_subset(ns))
    k = len(sds)
    pos = draw(_ordered_subset(k))
    spec = {"mdg": mdg_s, "nm": nm, "nd": draw(st.sampled_from([1, 2, 3, 2, 3])), "sds": sds, "sub": [sds[p] for p in pos],
            "intfs": draw(_ordered_subset(ni)),
            # the order in which the eight mortar projections are requested from ONE MortarProjections object (results
            # are cached per object), followed by a few repeated requests
            "morder": list(draw(st.permutations(list(range(8))))) + draw(st.lists(st.integers(0, 7), max_size=4))}
    # about a third of the cases: a history of requests on ONE SubdomainProjections object
    if k >= 2 and draw(st.sampled_from([True, False, False, True, False])):
        spec["hist"] = draw(_history(k))
    return spec


REQ_TYPES = ["cell_restriction", "cell_prolongation", "face_restriction", "face_prolongation", "cell_pair", "face_pair"]


@st.composite
def _history(draw, k):
    """Requests served by one projection object.  `w0`: positions (in the constructor list) forming the caller's
    working list W, ONE Python list object that is passed again and again and mutated in place between requests.
    Steps: {"a": "req", "t": type}             request with the list object W as it is now
           {"a": "fresh", "t": type, "w": [..]} request with a new list object (positions)
           {"a": "mut", "m": "reverse"|"perm"|"append"|"pop", ...}  in-place mutation of W."""
    w0 = draw(st.lists(st.integers(0, k - 1), unique=True, min_size=1, max_size=k))
    steps = []

    def mutation():
        m = draw(st.sampled_from(["reverse", "perm", "append", "pop", "perm", "append"]))
        st_ = {"a": "mut", "m": m}
        if m == "perm":
            st_["key"] = draw(st.lists(st.integers(0, 9), min_size=k, max_size=k))
        elif m in ("append", "pop"):
            st_["i"] = draw(st.integers(0, k - 1))
        return st_

    # rounds: [fresh request]? request t ; then (3/4) mutation(s) and a request of the same kind (2/3) or another kind
    for _ in range(draw(st.sampled_from([1, 2, 2, 3, 3, 4]))):
        if draw(st.sampled_from([False, False, False, True])):
            steps.append({"a": "fresh", "t": draw(st.sampled_from(REQ_TYPES)),
                          "w": draw(st.lists(st.integers(0, k - 1), unique=True, max_size=k))})
        t = draw(st.sampled_from(REQ_TYPES))
        steps.append({"a": "req", "t": t})
        if draw(st.sampled_from([True, True, True, False])):
            for _ in range(draw(st.sampled_from([1, 1, 2]))):
                steps.append(mutation())
            t2 = t if draw(st.sampled_from([True, True, False])) else draw(st.sampled_from(REQ_TYPES))
            steps.append({"a": "req", "t": t2})
        else:
            steps.append({"a": "req", "t": draw(st.sampled_from([t, t, draw(st.sampled_from(REQ_TYPES))]))})
    return {"w0": w0, "steps": steps}


def strategy(tier):
    return _spec(tier)


def warmup():
    """Import porepy and run one 2-d and one 3-d case before the clock starts."""
    f2 = [{"ax": 0, "pos": 1, "lo": [0], "hi": [2]}, {"ax": 1, "pos": 1, "lo": [0], "hi": [2]}]
    f3 = [{"ax": 0, "pos": 1, "lo": [0, 0], "hi": [2, 2]}, {"ax": 1, "pos": 1, "lo": [0, 0], "hi": [2, 2]}]
    for s in ({"dim": 2, "n": [2, 2], "fracs": f2, "phys": None}, {"dim": 3, "n": [2, 2, 2], "fracs": f3, "phys": None}):
        n_sd, n_if = (len(x) for x in grid_sizes(s))
        try:
            check({"mdg": s, "nm": 0, "nd": 2, "sds": list(range(n_sd)), "sub": [0], "intfs": list(range(n_if))})
        except Exception:  # noqa: BLE001 - warm-up only; the generated cases report any failure
            pass


# ------------------------------------------------------------------------------- md-grids
_NM_CACHE: dict = {}


def _mdg_of(spec):
    """Matching md-grids come from the shared cache; the non-matching variants are built
    (and mutated) once here and kept in a private cache - the check itself never mutates."""
    import porepy as pp

    if spec["nm"] == 0:
        return cached_mdg(spec["mdg"])
    key = canon(spec["mdg"]) + "|" + str(spec["nm"])
    mdg = _NM_CACHE.get(key)
    if mdg is None:
        mdg = build_mdg(spec["mdg"])
        if spec["nm"] == 1:
            for intf in mdg.interfaces(dim=1):
                new = {side: pp.refinement.refine_grid_1d(g, 2) for side, g in intf.side_grids.items()}
                mdg.replace_subdomains_and_interfaces(interface_map={intf: new})
        elif spec["nm"] == 3:
            # mortar grids with one node more per side than the neighbouring grids, equally spaced: not nested in
            # either neighbour, so that integrating and averaging projections differ on the primary side too
            # (remesh_1d takes one unbroken line with two end nodes: interfaces of fractures cut by another one keep their grids)
            for intf in mdg.interfaces(dim=1):
                if any(len(g.get_all_boundary_nodes()) != 2 for g in intf.side_grids.values()):
                    continue
                new = {side: pp.refinement.remesh_1d(g, num_nodes=g.num_nodes + 1) for side, g in intf.side_grids.items()}
                intf.update_mortar(new, tol=1e-8)
        else:
            for g in mdg.subdomains(dim=1):
                mdg.replace_subdomains_and_interfaces({g: pp.refinement.refine_grid_1d(g, 2)})
        if len(_NM_CACHE) > 32:
            _NM_CACHE.pop(next(iter(_NM_CACHE)))
        _NM_CACHE[key] = mdg
    return mdg


# ------------------------------------------------------------------------------- reference
def _offsets(sizes):
    off = np.concatenate(([0], np.cumsum(sizes))).astype(int)
    return off[:-1], int(off[-1])


def _selection(sizes_L, pos_S, nd):
    """Rows: entities of the grids at positions pos_S (of the list L), in that order, nd
    components each; columns: the global vector of L.  Entry 1 where they are the same dof."""
    off, tot = _offsets(sizes_L)
    rows = sum(sizes_L[p] for p in pos_S) * nd
    R = np.zeros((rows, tot * nd))
    r = 0
    for p in pos_S:
        for e in range(sizes_L[p]):
            for c in range(nd):
                R[r, (off[p] + e) * nd + c] = 1.0
                r += 1
    return R


def _dense(op, mdg):
    m = op.parse(mdg)
    return np.asarray(m.todense())


def _run_history(pp, mdg, L, nd, nc, nf, hist):
    """One projection object (built from a private copy of the list), one caller-owned working list W that is
    mutated IN PLACE between requests.  Every answer must follow W as it is at the time of the request."""
    labels = ["history"]
    proj = pp.ad.SubdomainProjections(list(L), nd)
    pos = list(hist["w0"])            # positions in L of the grids in W (our own bookkeeping)
    W = [L[p] for p in pos]           # the caller's list object
    asked = {}                        # request type -> W was mutated since that type was last asked with W?

    def one(kind, which, lst, positions, tag):
        sizes = nc if kind == "cell" else nf
        ref = _selection(sizes, positions, nd)
        if which in ("restriction", "pair"):
            R = _dense(getattr(proj, kind + "_restriction")(lst), mdg)
            require(R.shape == ref.shape, f"history-{kind}-restriction-shape", f"{tag}: {R.shape} vs {ref.shape}")
            require_equal(R, ref, f"history-{kind}-restriction", f"{tag}: restriction does not follow the list as passed")
        if which in ("prolongation", "pair"):
            P = _dense(getattr(proj, kind + "_prolongation")(lst), mdg)
            require(P.shape == ref.T.shape, f"history-{kind}-prolongation-shape", f"{tag}: {P.shape} vs {ref.T.shape}")
            require_equal(P, ref.T, f"history-{kind}-prolongation", f"{tag}: prolongation does not follow the list as passed")
        if which == "pair":
            require_equal(R @ P, np.eye(ref.shape[0]), f"history-{kind}-RP-identity", f"{tag}: R @ P != I")

    for n_step, st_ in enumerate(hist["steps"]):
        if st_["a"] == "mut":
            m = st_["m"]
            if m == "reverse":
                W.reverse()
                pos.reverse()
            elif m == "perm":
                order = sorted(range(len(W)), key=lambda i: (st_["key"][i], i))
                W[:] = [W[i] for i in order]          # slice assignment keeps the list object
                pos[:] = [pos[i] for i in order]
            elif m == "append":
                avail = [p for p in range(len(L)) if p not in pos]
                if not avail:
                    continue
                p = avail[st_["i"] % len(avail)]
                W.append(L[p])
                pos.append(p)
            elif m == "pop":
                if not W:
                    continue
                i = st_["i"] % len(W)
                W.pop(i)
                pos.pop(i)
            labels.append("history-mut-" + m)
            for t in asked:
                asked[t] = True
            continue
        kind, which = st_["t"].split("_")
        if st_["a"] == "fresh":
            positions = list(st_["w"])
            one(kind, which, [L[p] for p in positions], positions, f"step {n_step} (fresh list)")
            labels.append("history-fresh-list")
            # a request with another list object replaces whatever the object may remember for this type
            asked.pop(st_["t"], None)
            continue
        if st_["t"] in asked:
            labels.append("history-inplace-mutation" if asked[st_["t"]] else "history-repeat")
        one(kind, which, W, list(pos), f"step {n_step} (same list object{', mutated in place' if asked.get(st_['t']) else ''})")
        asked[st_["t"]] = False
    return labels


def check(spec):
    import porepy as pp

    mdg = _mdg_of(spec)
    nd = spec["nd"]
    all_sds = mdg.subdomains()
    all_intfs = mdg.interfaces()
    L = [all_sds[i] for i in spec["sds"]]
    S = [all_sds[i] for i in spec["sub"]]
    posS = [spec["sds"].index(i) for i in spec["sub"]]
    I = [all_intfs[i] for i in spec["intfs"]]

    labels = [f"nd{nd}", f"mdg-dim{spec['mdg']['dim']}", f"nm{spec['nm']}"]
    if len(L) == 0:
        labels.append("list-empty")
    elif len(L) == len(all_sds):
        labels.append("list-full")
    else:
        labels.append("list-partial")
    if len(L) >= 2:
        labels.append("order-md" if spec["sds"] == sorted(spec["sds"]) else "order-permuted")
    if any(g.dim == 0 for g in L):
        labels.append("list-has-0d")
        if all(g.dim == 0 for g in L):
            labels.append("list-only-0d")
    if len(S) == 0:
        labels.append("sub-empty")
    elif len(posS) >= 2 and posS != sorted(posS):
        labels.append("sub-permuted")
    if len(I) == 0:
        labels.append("intf-empty")
    elif len(I) >= 2 and spec["intfs"] != sorted(spec["intfs"]):
        labels.append("intf-permuted")

    nc = [int(g.num_cells) for g in L]
    nf = [int(g.num_faces) for g in L]
    _, totc = _offsets(nc)
    _, totf = _offsets(nf)

    # ---------------------------------------------------------------- SubdomainProjections
    proj = pp.ad.SubdomainProjections(L, nd)
    for kind, sizes, tot in (("cell", nc, totc), ("face", nf, totf)):
        R_ref = _selection(sizes, posS, nd)
        R = _dense(getattr(proj, kind + "_restriction")(S), mdg)
        P = _dense(getattr(proj, kind + "_prolongation")(S), mdg)
        require(R.shape == R_ref.shape, f"sd-{kind}-restriction-shape", f"{R.shape} vs {R_ref.shape}")
        require(P.shape == R_ref.T.shape, f"sd-{kind}-prolongation-shape", f"{P.shape} vs {R_ref.T.shape}")
        require_equal(R, R_ref, f"sd-{kind}-restriction", f"{kind}_restriction(S) != selection in list order")
        require_equal(P, R_ref.T, f"sd-{kind}-prolongation", f"{kind}_prolongation(S) != selection^T")
        require_equal(R @ P, np.eye(R_ref.shape[0]), f"sd-{kind}-RP-identity", "restriction @ prolongation != I")
        # all listed grids, in list order: prolongations side by side = identity (the global
        # vector is the concatenation in list order); one grid at a time gives the same blocks
        if L:
            Pfull = _dense(getattr(proj, kind + "_prolongation")(list(L)), mdg)
            require_equal(Pfull, np.eye(tot * nd), f"sd-{kind}-full-permutation", "prolongation of the full list != I")
            blocks = [_dense(getattr(proj, kind + "_prolongation")([g]), mdg) for g in L]
            require_equal(np.hstack(blocks), np.eye(tot * nd), f"sd-{kind}-single-blocks",
                          "single-grid prolongations do not tile the identity in list order")

    # ---------------------------------------------------------------- history on one SubdomainProjections object
    if spec.get("hist"):
        labels.extend(_run_history(pp, mdg, L, nd, nc, nf, spec["hist"]))

    # ---------------------------------------------------------------- MortarProjections
    nm_cells = [int(i.num_cells) for i in I]
    moff, totm = _offsets(nm_cells)
    foff, _ = _offsets(nf)
    coff, _ = _offsets(nc)
    mp = pp.ad.MortarProjections(mdg, L, I, nd)
    missing = False
    morder = spec.get("morder") or list(range(8))
    if morder[:8] != list(range(8)):
        labels.append("mortar-request-order-permuted")
    if not getattr(mp, "_is_conforming_primary", True):
        labels.append("mortar-nonconforming-primary")
    for name, to_mortar, primary in [MORTAR_METHODS[k] for k in morder]:
        n_sd = (totf if primary else totc) * nd
        ref = np.zeros((totm * nd, n_sd)) if to_mortar else np.zeros((n_sd, totm * nd))
        for j, intf in enumerate(I):
            pair = mdg.interface_to_subdomain_pair(intf)
            sd = pair[0] if primary else pair[1]
            if not any(sd is g for g in L):
                missing = True
                continue
            p = [k for k, g in enumerate(L) if g is sd][0]
            o = (foff[p] if primary else coff[p]) * nd
            sz = (nf[p] if primary else nc[p]) * nd
            loc = np.asarray(getattr(intf, name)(nd).todense())
            m0, m1 = moff[j] * nd, (moff[j] + nm_cells[j]) * nd
            if to_mortar:
                require(loc.shape == (m1 - m0, sz), "harness-local-shape", f"{name}: {loc.shape}")
                ref[m0:m1, o:o + sz] = loc
            else:
                require(loc.shape == (sz, m1 - m0), "harness-local-shape", f"{name}: {loc.shape}")
                ref[o:o + sz, m0:m1] = loc
        got = _dense(getattr(mp, name)(), mdg)
        require(got.shape == ref.shape, f"mortar-shape-{name}", f"{got.shape} vs {ref.shape}")
        require_close(got, ref, f"mortar-{name}", rtol=0.0, atol=1e-9,
                      what=f"{name} != per-interface blocks at list offsets")
    if missing:
        labels.append("neighbour-missing")
    sgn = _dense(mp.sign_of_mortar_sides(), mdg)
    if I:
        ref = np.zeros((totm * nd, totm * nd))
        for j, intf in enumerate(I):
            m0, m1 = moff[j] * nd, (moff[j] + nm_cells[j]) * nd
            ref[m0:m1, m0:m1] = np.asarray(intf.sign_of_mortar_sides(nd).todense())
        require_equal(sgn, ref, "mortar-sign", "sign_of_mortar_sides != block diagonal of per-interface signs")

    # ---------------------------------------------------------------- BoundaryProjection
    bp = pp.ad.BoundaryProjection(mdg, L, nd)
    rows = []
    for p, g in enumerate(L):
        if g.dim == 0:
            continue
        faces = np.where(g.tags["domain_boundary_faces"])[0]
        bg = mdg.subdomain_to_boundary_grid(g)
        require(bg is not None and int(bg.num_cells) == faces.size, "boundary-grid-size",
                f"boundary grid cells {None if bg is None else bg.num_cells} vs {faces.size} tagged faces")
        for f in faces:
            for c in range(nd):
                rows.append((foff[p] + int(f)) * nd + c)
    B_ref = np.zeros((len(rows), totf * nd))
    for r, col in enumerate(rows):
        B_ref[r, col] = 1.0
    S2B = _dense(bp.subdomain_to_boundary, mdg)
    B2S = _dense(bp.boundary_to_subdomain, mdg)
    require(S2B.shape == B_ref.shape, "boundary-shape", f"{S2B.shape} vs {B_ref.shape}")
    require_equal(S2B, B_ref, "boundary-s2b", "subdomain_to_boundary != selection of tagged faces in list order")
    require_equal(B2S, B_ref.T, "boundary-b2s", "boundary_to_subdomain != transpose")
    require_equal(S2B @ B2S, np.eye(len(rows)), "boundary-identity", "s2b @ b2s != I on boundary cells")
    if rows:
        labels.append("has-boundary-cells")

    return {"labels": sorted(set(labels)), "nontrivial": len(L) >= 2 or len(I) >= 2}
