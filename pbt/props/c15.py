"""C15 Biot coupling terms are consistent.

Spec: {"grid": grid spec, "lame": {"mu","lmbda"}, "alphas": [{"form": "float"|"int"|"tensor", "value": a}, ...],
"field": {"c","G"}, "p0": float, "reuse": null|{...}} (see gen/fv_mech.py).  pp.Biot is discretised with Dirichlet mechanical
conditions on the whole boundary and one coupling term per entry of `alphas`
(`scalar_vector_mappings`); the coupling matrices are applied to u(x) = c + G x (cell centres,
Dirichlet data u(x_f)) and to the constant pressure p0."""
from __future__ import annotations

import numpy as np
from hypothesis import strategies as st

from ..core import require, require_close
from ..gen import fv_mech as fm
from ..gen.grids import build_grid, grid_meta

ID = "C15"
RULE = (
    "Hypothesis draws a 2-d or 3-d grid (Cartesian / tensor / structured triangles and tetrahedra / mixed "
    "triangle-quadrilateral polygons and their extrusion to prisms+hexahedra, no hanging nodes; perturbed up to "
    "0.15 h, 3-d affine maps and rotations; gmsh simplices in the thorough tier; 2-d grids in the xy-plane; one grid in four multiplied by a unit factor "
    "1e-6..1e4, one tensor grid in two graded with spacings down to 1e-4 of their neighbours), Lame parameters "
    "(one case in four times a modulus scale 1e-6..1e12), one or two coupling coefficients alpha in [0.2,1.5] "
    "(one in four times 1e-6..1e12) given as float, int (1) or constant "
    "isotropic SecondOrderTensor under distinct keys, a linear displacement field u = c + G x (general, "
    "symmetric, skew, volumetric, translation) with u = d (L c + G x), L the unit factor of the grid and d = 1 or a data magnitude 1e-6..1e6, and a constant "
    "pressure p0 in [-3,3] (one in three times 1e-6..1e9); mechanical boundary all "
    "Dirichlet with data u(x_f). In three quarters of the cases the matrices come from a RE-discretisation after "
    "in-place edits (boundary types of the same bc object from a Dirichlet/Neumann mix to all Dirichlet, Lame "
    "parameters of the same tensor, node coordinates + compute_geometry), directly or there-and-back, same or new "
    "Biot object, same or new data dictionary. Oracle (analytic), per coupling key k: displacement_divergence[k] u + "
    "boundary_displacement_divergence[k] bc = alpha_k tr(G) |cell| in every cell; scalar_gradient[k] p0 = "
    "-alpha_k p0 n_f on every face and component; 1e-9 of the magnitude of the summed terms, no absolute tolerance. Non-trivial = "
    ">= 2 cells, tr(G) != 0 and p0 != 0; distinct = hash of spec."
)
BUDGET = {"quick": {"cases": 400, "seconds": 40}, "thorough": {"cases": 5000, "seconds": 1000}}
TECHNIQUE = "property-based testing (Hypothesis): analytic oracle (divergence of a linear field, force of a constant pressure) on generated grids"
LEVEL_TEXT = ("Exploration: hundreds (quick) to thousands (thorough) of generated combinations of grid family, "
              "geometry variation, Lame parameters, coupling coefficients (float / int / tensor input, one or two "
              "keys), linear displacement fields and constant pressures; the Biot coupling matrices are compared "
              "with closed-form values independent of the implementation.")
LEVEL_NOTE = ("Grids have at most ~100 cells (a few hundred in the thorough tier), planar faces, no hanging nodes; "
              "isotropic constant coupling coefficients only; all-Dirichlet mechanics as the property states. "
              "Tolerance 1e-9 purely relative to the summed terms (lengths 1e-6..1e4, moduli and coefficients "
              "1e-6..1e12, data 1e-6..1e9 are covered). Finds violations, does not prove absence.")
DESIGN_REF = "DESIGN.md section 4, C15"
ASSUMPTIONS = [
    "2-d grids lie in the xy-plane (tacit assumption documented in biot.py)",
    "no cell has two coplanar faces meeting in a vertex (no hanging nodes)",
    "mechanical boundary condition is Dirichlet on every boundary face",
    "coupling coefficient is a scalar (float / int) or a constant isotropic SecondOrderTensor",
]
REQUIRED = {"dim2": 0.2, "dim3": 0.2, "alpha-float": 0.2, "alpha-tensor": 0.2, "two-keys": 0.15,
            "field-general": 0.15, "field-rotation": 0.02, "kind-tri": 0.02, "kind-tet": 0.01,
            "kind-poly": 0.02, "kind-polyx": 0.01, "perturbed": 0.05,
            "scaled-small": 0.03, "scaled-large": 0.02, "stiff": 0.04, "soft": 0.02, "graded": 0.01, "data-scaled": 0.08,
            "alpha-scaled": 0.08, "pressure-scaled": 0.08,
            "reuse-none": 0.1, "reuse-bc-edited": 0.15, "reuse-geometry-edited": 0.05, "reuse-stiffness-edited": 0.05,
            "reuse-back": 0.08, "reuse-forward": 0.08, "reuse-same-discr": 0.08, "reuse-new-discr": 0.08,
            "reuse-same-data": 0.08, "reuse-new-data": 0.08}

_f = lambda lo, hi: st.floats(lo, hi, allow_nan=False, allow_infinity=False, allow_subnormal=False, width=64)  # noqa: E731


# ----------------------------------------------------------------------------- strategy
_FIELD_KINDS = ("general", "general", "general", "symmetric", "symmetric", "volumetric", "rotation", "translation")


@st.composite
def _alpha(draw):
    form = draw(st.sampled_from(["float", "float", "tensor", "tensor", "int"]))
    if form == "int":
        return {"form": form, "value": 1}
    a = draw(_f(0.2, 1.5))
    if draw(st.integers(0, 3)) == 0:  # coupling coefficients of other magnitudes (units of the scalar variable)
        return {"form": form, "value": a * draw(st.sampled_from([1e-6, 1e-3, 1e3, 1e6, 1e12])), "scaled": True}
    return {"form": form, "value": a}


@st.composite
def _spec(draw, tier):
    thorough = tier == "thorough"
    g = draw(fm.mech_grid_spec(poly=True, max_amp=0.15, max_n=5 if thorough else 4, max_n3=3 if thorough else 2,
                               gmsh=thorough))
    if "merge" in g:
        g["merge"] = [False] * len(g["merge"])  # no hanging nodes (singular local systems), see C13
    alphas = draw(st.lists(_alpha(), min_size=1, max_size=2))
    # data in the units of the grid: u = d (L c + G x); pressure p0 times a magnitude (Pa-scale 1e6..1e9 included)
    fs = draw(fm.displacement_spec(kinds=_FIELD_KINDS))
    d = fm.data_scale(draw)
    L = float(g.get("scale", 1.0))
    fs["c"] = [v * L * d for v in fs["c"]]
    fs["G"] = [[v * d for v in row] for row in fs["G"]]
    fs["dscale"] = d
    p0 = draw(st.sampled_from([1.0, -1.0]) | fm._d(-3, 3))
    if draw(st.integers(0, 2)) == 0:
        p0 = p0 * draw(st.sampled_from([1e-6, 1e-3, 1e3, 1e6, 1e9]))
    return {"grid": g, "lame": draw(fm.lame_spec()), "alphas": alphas, "field": fs, "p0": p0,
            "reuse": draw(fm.reuse_spec(("mix", "mix", "all_dir", "one_dir")))}


def strategy(tier):
    return _spec(tier)


def warmup():
    fm.warmup_mech(("biot",))


# ----------------------------------------------------------------------------- check
def check(spec):
    import porepy as pp

    g = build_grid(spec["grid"])
    nd, nc, nf = g.dim, g.num_cells, g.num_faces
    fs = spec["field"]
    all_dir = {"mode": "all_dir", "pattern": [0], "anchor": 0}
    bc, is_dir, is_neu = fm.build_vbc(all_dir, g)
    alphas, values = {}, {}
    for i, a in enumerate(spec["alphas"]):
        key = f"coupling_{i}"
        values[key] = float(a["value"])
        if a["form"] == "tensor":
            alphas[key] = pp.SecondOrderTensor(a["value"] * np.ones(nc))
        elif a["form"] == "int":
            alphas[key] = int(a["value"])
        else:
            alphas[key] = float(a["value"])
    # single discretisation, or re-discretisation after in-place edits of bc types (other state: a Dirichlet /
    # Neumann mix, final state: all Dirichlet) / geometry / stiffness; asserted on the last discretisation
    reuse = spec.get("reuse")

    def other_types(bc0):
        _, d0, n0 = fm.build_vbc(bc0, g)
        return d0, n0

    states = fm.reuse_states(g, reuse, (is_dir, is_neu), spec["lame"], other_types)
    M = fm.discretize_sequence(g, "biot", states, same_discr=bool(reuse and reuse["same_discr"]),
                               same_data=bool(reuse and reuse["same_data"]), alphas=alphas)

    u = fm.flat(fm.displacement_at(fs, g.cell_centers, nd))
    bv = fm.flat(fm.linear_bc_values(g, fs, spec["lame"], is_dir, is_neu))
    _, G = fm.field_arrays(fs, nd)
    trG = float(np.trace(G))
    p = spec["p0"] * np.ones(nc)
    normals = fm.flat(g.face_normals[:nd])
    for key in alphas:
        require(set(M["displacement_divergence"].keys()) == set(alphas), "coupling-keys",
                f"{sorted(M['displacement_divergence'])} vs {sorted(alphas)}")
        dd, bdd, sg = (M["displacement_divergence"][key], M["boundary_displacement_divergence"][key],
                       M["scalar_gradient"][key])
        require(dd.shape == (nc, nc * nd) and bdd.shape == (nc, nf * nd) and sg.shape == (nf * nd, nc),
                "coupling-shapes", f"{dd.shape} {bdd.shape} {sg.shape}")
        a = values[key]
        got = dd @ u + bdd @ bv
        sc = float((fm.abs_apply(dd, u) + fm.abs_apply(bdd, bv)).max())
        require_close(got, a * trG * g.cell_volumes, "displacement-divergence", rtol=1e-9, atol=0.0, scale=sc,
                      what=f"[{key}] div_u u + bound_div_u bc vs alpha tr(G) |cell|")
        gp = sg @ p
        scp = float(fm.abs_apply(sg, p).max())
        require_close(gp, -a * spec["p0"] * normals, "scalar-gradient", rtol=1e-9, atol=0.0, scale=scp,
                      what=f"[{key}] scalar_gradient p0 vs -alpha p0 n_f")

    meta = grid_meta(spec["grid"])
    labels = list(meta["labels"]) + ["field-" + fs["kind"]] + fm.reuse_labels(reuse)
    labels += fm.scale_labels(spec["grid"], spec["lame"], fs.get("dscale", 1.0))
    if any(a.get("scaled") for a in spec["alphas"]):
        labels.append("alpha-scaled")
    if not (1e-2 < abs(spec["p0"]) < 1e2) and spec["p0"] != 0.0:
        labels.append("pressure-scaled")
    labels += sorted({"alpha-" + a["form"] for a in spec["alphas"]})
    if len(spec["alphas"]) == 2:
        labels.append("two-keys")
    nontrivial = nc >= 2 and trG != 0.0 and spec["p0"] != 0.0
    return {"labels": labels, "nontrivial": nontrivial}
