"""C37 Block-diagonal inversion returns the true inverse.

Spec: {"fn": "blocks" | "permuted", "fmt", "method", "blocks": [block...], "order": permutation of the stored
entries, "zero_sizes": [positions] (fn=blocks), "rperm"/"cperm" (fn=permuted)}
  block = {"n", "L": strictly lower entries (row-major), "U": strictly upper entries, "d": non-zero diagonal of U,
           "p", "q": row / column permutation, "scale": power of ten, "store_zeros": bool}
  B = 10^scale * (I+L)(D+U) with rows permuted by p and columns by q  -> integer (times scale) block, det = prod d,
  cond < 5e3 for n <= 6 (entries of L, U in {-1, 0, 1}, d in +-{1, 2, 3}); structural zeros come from sparse L, U.
"""
from __future__ import annotations

import numpy as np
import scipy.sparse as sps
from hypothesis import strategies as st

from ..core import HarnessError, Violation, require, require_close, require_equal
from ..gen.sparse import build_sparse, is_unsorted

ID = "C37"
RULE = (
    "Hypothesis draws 1..6 blocks of size 1..6; each block is 10^s * P (I+L)(D+U) Q with L, U strictly triangular "
    "with entries in {-1,0,1}, D diagonal in +-{1,2,3}, P, Q permutations, s in {-2,0,0,2} (nonsingular by "
    "construction, cond < 5e3, structural zeros inside blocks). (blocks) the block-diagonal matrix is stored as csr "
    "or csc directly from raw arrays with the entries in a drawn order (unsorted indices inside a line), optionally "
    "with explicit stored zeros inside blocks (both sub-checks) and zero-size entries in the size array; invert_diagonal_blocks with "
    "method python / numba / None. (permuted) rows and columns of the block-diagonal matrix are permuted by drawn "
    "permutations, stored as csr / csc / coo; generate_permutation_to_block_diag_matrix then "
    "invert_permuted_block_diag_matrix. Two thirds of the cases are additionally scaled, A' = diag(10^re) A diag(10^ce): "
    "re = per-block exponent + one global exponent + local row exponent in -3..3, ce = per-column exponent, exponents "
    "from the classes +-3, +-8, +-15 with the extremes over-weighted (entries from 1e-47 to 1e47; the row spread "
    "inside one block stays <= 1e6 because a larger one defeats partial pivoting - ill-conditioning of the input). "
    "Oracle, in the well-scaled variables Y = diag(10^ce) inv diag(10^re): Y @ A = I and A @ Y = I (dense, |err| <= "
    "1e-9) and the metamorphic relation inv(R A C) = C^-1 inv(A) R^-1 entry-wise against the block-wise inverse of "
    "the well-scaled integer blocks, tolerance 1e-9 times the largest entry of the entry's own block; inv has the "
    "shape of A and is zero outside the blocks; returned permutations are permutations of 0..n-1, sizes are "
    "positive and sum to n, A[r][:, c] is exactly zero outside the diagonal blocks. Non-trivial = at least 2 blocks "
    "or a block of size >= 2; distinct = hash of spec."
)
# every numba call re-creates the jitted closure and reloads it from the on-disk cache (~0.1 s): cases are costly
BUDGET = {"quick": {"cases": 1000, "seconds": 40}, "thorough": {"cases": 40000, "seconds": 1100}}
TECHNIQUE = "property-based testing (Hypothesis): constructed nonsingular block matrices; residual oracle inv*A = I"
LEVEL_TEXT = ("Exploration: thousands of generated block structures per run (sizes 1-6, up to 6 blocks, dense and "
              "sparse blocks, csr / csc, python and numba paths, random row / column permutations), each inverse "
              "verified by multiplying back (inv*A = A*inv = I to 1e-9) and each computed permutation verified to "
              "expose square diagonal blocks.")
LEVEL_NOTE = ("Blocks are well conditioned by construction (cond < 5e3) up to row / column / block / global scaling by "
              "powers of ten (1e-47 .. 1e47; row spread inside a block <= 1e6); matrices up to 36 x 36. Stored zeros only "
              "inside the generated blocks. "
              "Finds violations, does not prove absence.")
DESIGN_REF = "DESIGN.md section 4, C37"
ASSUMPTIONS = [
    "blocks are nonsingular and well conditioned (cond < 5e3) before scaling",
    "row scaling inside one block spans at most 1e6 (larger spreads make LU with partial pivoting inaccurate: measured O(1) errors with numpy alone)",
    "matrices are csr / csc with float64 data and int32 indices (what the numba kernel is compiled for)",
    "invert_diagonal_blocks: no stored entries outside the declared diagonal blocks (stored zeros inside are generated)",
    "permuted pair: stored zeros only inside the generated blocks (they may fall outside the finer blocks the permutation finds: known finding)",
    "block sizes passed as int64 (docstring)",
]
REQUIRED = {
    "blocks": 0.3, "permuted": 0.3, "csr": 0.2, "csc": 0.2, "method-python": 0.08, "method-numba": 0.08,
    "method-None": 0.08, "sparse-block": 0.3, "full-block": 0.1, "unsorted-indices": 0.15, "explicit-zero": 0.05,
    "multi-block": 0.4, "single-block": 0.05, "size1-block": 0.2, "block>=4": 0.2, "scaled": 0.2,
    "zero-size-entry": 0.015, "perm-nontrivial": 0.2, "coo": 0.02, "permuted-explicit-zero": 0.03,
    "scaled-extreme": 0.1, "scaled-extreme-large": 0.05, "scaled-extreme-small": 0.05, "scaled-columns": 0.1,
    "scaled-global": 0.05,
}


# ----------------------------------------------------------------------------- strategy
@st.composite
def _block(draw, max_n):
    n = draw(st.integers(1, max_n))
    m = n * (n - 1) // 2
    tri = st.sampled_from([0, 0, 1, -1])
    return {
        "n": n,
        "L": draw(st.lists(tri, min_size=m, max_size=m)),
        "U": draw(st.lists(tri, min_size=m, max_size=m)),
        "d": draw(st.lists(st.sampled_from([1, -1, 2, -2, 3, -3]), min_size=n, max_size=n)),
        "p": list(draw(st.permutations(list(range(n))))),
        "q": list(draw(st.permutations(list(range(n))))),
        "scale": draw(st.sampled_from([0, 0, -2, 2])),
        "store_zeros": draw(st.sampled_from([False, False, False, True])),
    }


def block_matrix(b) -> np.ndarray:
    """Integer block P (I+L)(D+U) Q (without the power-of-ten scale)."""
    n = b["n"]
    L = np.eye(n, dtype=np.int64)
    U = np.diag(np.array(b["d"], dtype=np.int64))
    k = 0
    for i in range(n):
        for j in range(i):
            L[i, j] = b["L"][k]
            U[j, i] = b["U"][k]
            k += 1
    return (L @ U)[np.array(b["p"], dtype=int)][:, np.array(b["q"], dtype=int)]


@st.composite
def _spec(draw, tier):
    fn = draw(st.sampled_from(["blocks", "permuted"]))
    nb = draw(st.integers(1, 6))
    max_n = 6
    blocks = [draw(_block(max_n if nb <= 3 else 4)) for _ in range(nb)]
    n = sum(b["n"] for b in blocks)
    s = {"fn": fn, "blocks": blocks}
    if fn == "blocks":
        s["fmt"] = draw(st.sampled_from(["csr", "csc"]))
        s["method"] = draw(st.sampled_from(["python", "python", "numba", "none"]))
        s["zero_sizes"] = draw(st.lists(st.integers(0, nb), max_size=2)) if draw(st.integers(0, 5)) == 5 else []
    else:
        s["fmt"] = draw(st.sampled_from(["csr", "csr", "csc", "csc", "coo"]))
        s["rperm"] = list(draw(st.permutations(list(range(n)))))
        s["cperm"] = list(draw(st.permutations(list(range(n)))))
    # magnitude coverage: A' = diag(10^re) A diag(10^ce); re = per-block exponent + global exponent + local row
    # exponent in -3..3 (a larger row spread INSIDE a block defeats partial pivoting: ill-conditioned input, not a
    # defect), ce = per-column exponent over the whole class range
    cls = draw(st.sampled_from([0, 0, 3, 8, 15, 15]))
    if cls:
        ext = st.one_of(st.sampled_from([-cls, cls]), st.sampled_from([-cls, cls, 0]), st.integers(-cls, cls))
        s["scaling"] = {
            "cls": cls,
            "bexp": [draw(ext) for _ in range(nb)],
            "rloc": draw(st.lists(st.integers(-3, 3), min_size=n, max_size=n)) if draw(st.booleans()) else [0] * n,
            "cexp": [draw(ext) for _ in range(n)] if draw(st.sampled_from([True, True, False])) else [0] * n,
            "gexp": draw(st.sampled_from([0, 0, -cls, cls])),
        }
    else:
        s["scaling"] = None
    # order in which the stored entries are laid out (only the relative order inside a line matters)
    s["shuffle"] = draw(st.sampled_from([False, True]))
    s["key"] = draw(st.lists(st.integers(0, 9), min_size=8, max_size=8)) if s["shuffle"] else []
    return s


def strategy(tier):
    return _spec(tier)


# ----------------------------------------------------------------------------- building
def _assemble(spec):
    """-> (D0, entries, sizes, re, ce): D0 = well-scaled integer block-diagonal matrix (float), entries = stored
    (i, j, v) of the matrix handed to porepy, A[i, j] = D0[i, j] * 10^(re[i] + ce[j])."""
    sizes = [b["n"] for b in spec["blocks"]]
    n = sum(sizes)
    sc = spec.get("scaling")
    re = np.zeros(n, dtype=int)
    ce = np.zeros(n, dtype=int)
    off = 0
    for k, b in enumerate(spec["blocks"]):
        re[off:off + b["n"]] = b["scale"] + (sc["bexp"][k] + sc["gexp"] if sc else 0)
        off += b["n"]
    if sc:
        re += np.array(sc["rloc"], dtype=int)
        ce += np.array(sc["cexp"], dtype=int)
    D0 = np.zeros((n, n))
    entries = []
    off = 0
    for b in spec["blocks"]:
        B = block_matrix(b).astype(float)
        k = b["n"]
        D0[off:off + k, off:off + k] = B
        for i in range(k):
            for j in range(k):
                if B[i, j] != 0 or b["store_zeros"]:
                    entries.append([off + i, off + j, float(B[i, j]) * 10.0 ** int(re[off + i] + ce[off + j])])
        off += k
    return D0, entries, sizes, re, ce


def _ordered(entries, spec):
    if not spec["shuffle"]:
        return entries
    key = spec["key"]
    # deterministic pseudo-shuffle driven by the drawn key (no RNG in check)
    return sorted(entries, key=lambda e: ((e[0] * 7 + e[1] * 3 + key[(e[0] + e[1]) % len(key)]) % 11, e[0], e[1]))


def _pattern_components(B) -> int:
    """Number of connected components of the bipartite row/column graph of the non-zeros of B."""
    n = B.shape[0]
    parent = list(range(2 * n))

    def find(x):
        while parent[x] != x:
            parent[x] = parent[parent[x]]
            x = parent[x]
        return x

    for i in range(n):
        for j in range(n):
            if B[i, j] != 0:
                parent[find(i)] = find(n + j)
    return len({find(x) for x in range(2 * n)})


def _known_stored_zero_between_blocks(spec) -> bool:
    """permuted pair: a block that stores its zeros explicitly and whose NON-ZERO pattern is disconnected, so the
    computed (finer) blocks leave stored zeros outside the diagonal blocks handed to the block inverter."""
    if spec.get("fn") != "permuted":
        return False
    return any(b["store_zeros"] and b["n"] > 1 and _pattern_components(block_matrix(b)) > 1 for b in spec["blocks"])


KNOWN = {"C37-permuted-inverter-stored-zeros-between-blocks": _known_stored_zero_between_blocks}


def warmup():
    import porepy as pp

    A = sps.csr_matrix(np.array([[2.0, 1.0, 0.0], [1.0, 3.0, 0.0], [0.0, 0.0, 4.0]]))
    pp.matrix_operations.invert_diagonal_blocks(A, np.array([2, 1], dtype=np.int64), method="numba")


def _check_inverse(inv, D0, re, ce, ref, tolm, tag, what):
    """inv must be the inverse of A = diag(10^re) D0 diag(10^ce).  Everything is compared in the well-scaled
    variables Y = diag(10^ce) inv diag(10^re), which must be the inverse of D0: (a) Y @ D0 = D0 @ Y = I to 1e-9,
    (b) metamorphic / reference: Y = ref (inverse of the well-scaled blocks) entry-wise, tolerance 1e-9 times the
    largest reference entry of the entry's own block (tolm)."""
    n = D0.shape[0]
    require(sps.issparse(inv), tag + "-type", f"{what}: result is {type(inv).__name__}")
    require(inv.shape == (n, n), tag + "-shape", f"{what}: shape {inv.shape}, expected {(n, n)}")
    Id = inv.toarray()
    require(np.all(np.isfinite(Id)), tag + "-finite", f"{what}: non-finite entries in the inverse")
    Y = (10.0 ** ce.astype(float))[:, None] * Id * (10.0 ** re.astype(float))[None, :]
    require_close(Y @ D0, np.eye(n), tag + "-left", rtol=1e-9, atol=0.0, what=f"{what}: inv @ A != I (scaled variables)",
                  scale=1.0)
    require_close(D0 @ Y, np.eye(n), tag + "-right", rtol=1e-9, atol=0.0, what=f"{what}: A @ inv != I (scaled variables)",
                  scale=1.0)
    bad = np.abs(Y - ref) > 1e-9 * tolm
    if np.any(bad):
        i, j = map(int, np.argwhere(bad)[0])
        raise Violation(tag + "-scaling", f"{what}: entry ({i},{j}) of the inverse is {Id[i, j]:.6e}, expected "
                                          f"{ref[i, j]:.6e} * 10^{-(int(ce[i]) + int(re[j]))} "
                                          f"(inv(RAC) = C^-1 inv(A) R^-1), row exps {re.tolist()}, col exps {ce.tolist()}")
    return Id


def _reference(D0, sizes):
    """Block-wise inverse of the well-scaled matrix and, per entry, the largest |entry| of its block."""
    n = D0.shape[0]
    ref = np.zeros((n, n))
    tolm = np.ones((n, n))
    off = 0
    for k in sizes:
        Bi = np.linalg.inv(D0[off:off + k, off:off + k])
        ref[off:off + k, off:off + k] = Bi
        tolm[off:off + k, off:off + k] = np.abs(Bi).max()
        off += k
    return ref, tolm


# ----------------------------------------------------------------------------- check
def check(spec):
    import porepy as pp

    mo = pp.matrix_operations
    fn = spec["fn"]
    D, entries, sizes, re, ce = _assemble(spec)  # D is the well-scaled integer matrix
    n = D.shape[0]
    ref, tolm = _reference(D, sizes)
    labels = {fn, spec["fmt"]}
    labels.add("multi-block" if len(sizes) > 1 else "single-block")
    if 1 in sizes:
        labels.add("size1-block")
    if max(sizes) >= 4:
        labels.add("block>=4")
    tot = [int(re[e[0]] + ce[e[1]]) for e in entries]
    if any(t != 0 for t in tot):
        labels.add("scaled")
    if spec.get("scaling"):
        sc = spec["scaling"]
        labels.add(f"scaling-class-{sc['cls']}")
        if max(abs(t) for t in tot) >= 12:
            labels.add("scaled-extreme")
        if max(tot) >= 12:
            labels.add("scaled-extreme-large")
        if min(tot) <= -12:
            labels.add("scaled-extreme-small")
        if sc["gexp"]:
            labels.add("scaled-global")
        if any(sc["cexp"]):
            labels.add("scaled-columns")
        if any(sc["rloc"]):
            labels.add("scaled-rows-local")
    off = 0
    for b in spec["blocks"]:
        k = b["n"]
        if k > 1:
            labels.add("sparse-block" if np.any(D[off:off + k, off:off + k] == 0) else "full-block")
        off += k
    conds = []
    off = 0
    for k in sizes:
        conds.append(np.linalg.cond(D[off:off + k, off:off + k]))
        off += k
    if max(conds) > 1e4:
        raise HarnessError(f"generator produced an ill-conditioned block: cond {max(conds):.3e}")

    if fn == "blocks":
        ent = _ordered(entries, spec)
        mspec = {"shape": [n, n], "fmt": spec["fmt"], "entries": ent}
        A = build_sparse(mspec)
        if is_unsorted(mspec):
            labels.add("unsorted-indices")
        if any(e[2] == 0 for e in ent):
            labels.add("explicit-zero")
        sz = list(sizes)
        for pos in sorted(spec["zero_sizes"], reverse=True):
            sz.insert(min(pos, len(sz)), 0)
        if spec["zero_sizes"]:
            labels.add("zero-size-entry")
        method = None if spec["method"] == "none" else spec["method"]
        labels.add("method-" + ("None" if method is None else method))
        A0 = A.copy()
        inv = mo.invert_diagonal_blocks(A, np.array(sz, dtype=np.int64), method=method)
        what = f"invert_diagonal_blocks({spec['fmt']}, sizes={sz}, method={method})"
        Id = _check_inverse(inv, D, re, ce, ref, tolm, "blockinv", what)
        mask = np.zeros((n, n), dtype=bool)
        off = 0
        for k in sizes:
            mask[off:off + k, off:off + k] = True
            off += k
        require(np.all(Id[~mask] == 0), "blockinv-structure", f"{what}: inverse has entries outside the blocks")
        require((A != A0).nnz == 0 and np.array_equal(A.indices, A0.indices), "blockinv-input-mutated",
                f"{what}: input matrix changed")
    elif fn == "permuted":
        rp = np.array(spec["rperm"], dtype=int)
        cp = np.array(spec["cperm"], dtype=int)
        # A[i, j] = D[rp[i], cp[j]]  <=> entry (r, c) of D goes to (rinv[r], cinv[c])
        rinv = np.argsort(rp)
        cinv = np.argsort(cp)
        Ad = ((10.0 ** re.astype(float))[:, None] * D * (10.0 ** ce.astype(float))[None, :])[rp][:, cp]
        ent = _ordered([[int(rinv[e[0]]), int(cinv[e[1]]), e[2]] for e in entries], spec)
        mspec = {"shape": [n, n], "fmt": spec["fmt"], "entries": ent}
        A = build_sparse(mspec)
        if is_unsorted(mspec):
            labels.add("unsorted-indices")
        if any(e[2] == 0 for e in ent):
            labels.add("explicit-zero")
            labels.add("permuted-explicit-zero")
        if not (np.array_equal(rp, np.arange(n)) and np.array_equal(cp, np.arange(n))):
            labels.add("perm-nontrivial")
        r, c, bs = mo.generate_permutation_to_block_diag_matrix(A)
        r, c, bs = np.asarray(r), np.asarray(c), np.asarray(bs)
        what = f"generate_permutation_to_block_diag_matrix -> r={r.tolist()} c={c.tolist()} sizes={bs.tolist()}"
        require(sorted(r.tolist()) == list(range(n)), "perm-rows", f"{what}: row permutation is not a permutation")
        require(sorted(c.tolist()) == list(range(n)), "perm-cols", f"{what}: column permutation is not a permutation")
        require(bs.ndim == 1 and np.all(bs >= 1) and int(bs.sum()) == n, "perm-sizes",
                f"{what}: block sizes do not sum to n={n}")
        M = Ad[r][:, c]
        mask = np.zeros((n, n), dtype=bool)
        off = 0
        for k in bs.tolist():
            mask[off:off + k, off:off + k] = True
            off += k
        require(np.all(M[~mask] == 0), "perm-not-block-diagonal",
                f"{what}: A[r][:, c] has non-zeros outside the diagonal blocks; A={Ad.tolist()}")
        if bs.size > len(sizes):
            labels.add("finer-than-generated")
        elif bs.size < len(sizes):
            labels.add("coarser-than-generated")
        inv = mo.invert_permuted_block_diag_matrix(A, r, c, bs)
        # A = Pr (R D C) Pc  ->  the well-scaled matrix, the exponents and the reference are permuted alike
        _check_inverse(inv, D[rp][:, cp], re[rp], ce[cp], ref[cp][:, rp], tolm[cp][:, rp], "perminv",
                       f"invert_permuted_block_diag_matrix(A={Ad.tolist()}, {what})")
    else:
        raise Violation("unknown-fn", fn)
    nontrivial = len(sizes) >= 2 or max(sizes) >= 2
    return {"labels": sorted(labels), "nontrivial": nontrivial}
