"""C02 Operator-tree evaluation matches direct forward-mode evaluation."""
from __future__ import annotations

import numpy as np

from ..core import require, require_close
from ..gen.exprtrees import tree_depth
from ..gen.mdgrids import mdg_labels
from ..gen.optrees import Builder, Setup, optree_spec

ID = "C02"
RULE = (
    "Hypothesis draws a small fractured md-grid (pp.meshing.cart_grid, 2-d/3-d, 0-2 fractures), 1-3 cell variables on "
    "random subsets of subdomains or interfaces (1-2 dofs per cell), random stored values at iterate 0/1 and time step "
    "0/1, optionally an explicit state different from the stored one, and an operator tree of depth 1-4 (quick) / 1-6 "
    "(thorough) over: atomic variables, md-variables (also with reordered sub-variables), DenseArray, "
    "TimeDependentDenseArray, Scalar, SparseArray and plain scipy matrices as left operand of @, Projection and "
    "sum_projection_list, + - * / ** between operators and with Python numbers / numpy arrays on either side (reflected "
    "operators), unary minus, pp.ad.Function wrapping every function of the AD library incl. maximum, and "
    "previous_timestep(k) / previous_iteration(k) applied to whole sub-trees. Oracle: the same tree evaluated directly "
    "on AdArrays sliced from initAdArrays([state]) (plain stored numpy values below a shift node): value and Jacobian "
    "of evaluate(op, derivative=True) agree (rtol 1e-11), evaluate(op, derivative=False) equals the value. "
    "Non-trivial = tree contains a variable and at least one of {reflected operand, shift, projection, function}; "
    "distinct = hash of spec."
)
BUDGET = {"quick": {"cases": 2500, "seconds": 50}, "thorough": {"cases": 120000, "seconds": 1200}}
TECHNIQUE = "property-based testing (Hypothesis): generated operator programs, differential against direct forward-mode evaluation"
LEVEL_TEXT = ("Exploration: thousands of generated operator trees per run on generated md-grids and random states, "
              "each evaluated through EquationSystem/AdParser and, independently, by direct AdArray arithmetic; "
              "covers every operand kind on both sides, shifts and projections.")
LEVEL_NOTE = ("The mirror uses AdArray arithmetic, whose exactness is the subject of C01. Grids have < 40 cells; "
              "only cell dofs. Finds violations, does not prove absence.")
DESIGN_REF = "DESIGN.md section 4, C02"
ASSUMPTIONS = ["AdArray arithmetic itself is exact (C01)", "arguments inside smooth domains (frozen rescaling)"]
REQUIRED = {"shift": 0.1, "rbin": 0.1, "proj": 0.1, "fn": 0.1, "mat-scipy": 0.05, "leaf-md": 0.2, "leaf-atomic": 0.2, "leaf-md-from-shifted": 0.03}


def strategy(tier):
    return optree_spec(max_depth=4 if tier == "quick" else 6)


def _has(nd, pred):
    if not isinstance(nd, dict):
        return False
    if pred(nd):
        return True
    return any(_has(nd[c], pred) for c in ("a", "l", "r") if c in nd)


def check(spec):
    import porepy as pp

    S = Setup(spec)
    B = Builder(S)
    with np.errstate(all="ignore"):
        mirror, op = B.visit(spec["tree"])
    mval = mirror.val if hasattr(mirror, "jac") else np.atleast_1d(np.asarray(mirror, dtype=float))
    labels = sorted(B.kinds) + mdg_labels(spec["mdg"], S.mdg)
    if not np.all(np.isfinite(mval)) or np.max(np.abs(mval)) > 1e8:
        return {"labels": ["discarded-nonfinite"], "nontrivial": False}
    n = S.es.num_dofs()
    mjac = mirror.jac.toarray() if hasattr(mirror, "jac") else np.zeros((mval.size, n))
    with np.errstate(all="ignore"):
        res = S.es.evaluate(op, derivative=True, state=None if S.state is None else S.state.copy())
        val_only = S.es.evaluate(op, derivative=False, state=None if S.state is None else S.state.copy())
    require(isinstance(res, pp.ad.AdArray), "result-type", f"evaluate(derivative=True) returned {type(res)}")
    require(not isinstance(val_only, pp.ad.AdArray), "value-type", "evaluate(derivative=False) returned an AdArray")
    val_only = np.atleast_1d(np.asarray(val_only, dtype=float))
    require_close(res.val, mval, "value", rtol=1e-11, atol=1e-12, what="operator value vs forward-mode mirror")
    require_close(val_only, mval, "value-no-derivative", rtol=1e-11, atol=1e-12,
                  what="evaluate(derivative=False) vs forward-mode mirror")
    J = res.jac.toarray() if hasattr(res.jac, "toarray") else np.asarray(res.jac)
    require(J.shape == mjac.shape, "jacobian-shape", f"{J.shape} vs {mjac.shape}")
    require_close(J, mjac, "jacobian", rtol=1e-11, atol=1e-12, what="operator Jacobian vs forward-mode mirror")
    if spec["tree"]["k"] == "shift":
        labels.append("root-shift")
        require(not np.any(J), "shift-jacobian", "a shifted sub-tree contributes a derivative")
    if spec["explicit_state"]:
        labels.append("explicit-state")
    tr = spec["tree"]
    nontrivial = B.has_var and _has(tr, lambda d: d["k"] in ("shift", "proj", "projsum", "fn", "max")
                                    or (d["k"] == "rbin" and d["wrap"] == "py") or (d["k"] == "mat" and d["wrap"] == "scipy"))
    labels.append(f"depth{min(tree_depth(tr), 7)}")
    return {"labels": labels, "nontrivial": bool(nontrivial)}
