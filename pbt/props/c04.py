"""C04 Flow and energy models conserve mass and energy discretely."""
from __future__ import annotations

import numpy as np

from ..core import require
from ..gen.models import build_model, model_labels, model_spec, random_state

ID = "C04"
RULE = (
    "Hypothesis draws a single-phase-flow or mass-and-energy model on the library's 2-d / 3-d test geometries with a "
    "random subset of 0-3 fractures (Cartesian; simplex via gmsh in the thorough tier), in a quarter of the cases with the "
    "differentiable flux laws DarcysLawAd / FouriersLawAd mixed in, in a third of the energy cases with the advective energy "
    "flux typed Dirichlet on random boundary faces and arbitrary boundary temperatures (still closed: zero mass flux), closed boundaries (a harness "
    "mixin makes every boundary face Neumann with zero flux; no sources), random constants (compressible and "
    "incompressible fluid), a random time step, an ARBITRARY state (random pressures, temperatures and interface "
    "fluxes - not a solution) and a random previous-time-step state; upwind discretizations are updated to the state. "
    "Oracle: sum over all cells of all subdomains of the residual of the mass (energy) balance equation equals "
    "(M(x) - M(x_prev)) / dt, M = sum of the model's fluid_mass operator (volume_integral of total_internal_energy for energy); "
    "tolerance 1e-9 of the sum of |residual| and |accumulation| terms. Non-trivial = at least one fracture (non-zero "
    "random interface fluxes); distinct = hash of spec."
)
BUDGET = {"quick": {"cases": 160, "seconds": 60}, "thorough": {"cases": 5000, "seconds": 1500}}
TECHNIQUE = "property-based testing (Hypothesis): algebraic invariant (telescoping of fluxes) on generated models and arbitrary states"
LEVEL_TEXT = ("Exploration: hundreds (quick) to thousands (thorough) of generated fractured-domain configurations and "
              "arbitrary states; the global sum of balance residuals must equal the accumulation rate exactly, which "
              "fails if any inter-cell or interface flux does not cancel.")
LEVEL_NOTE = ("Uses the model's own accumulation operators as the definition of the conserved quantity; grids are the "
              "library's small test geometries; case counts in the hundreds.")
DESIGN_REF = "DESIGN.md section 4, C04"
ASSUMPTIONS = ["closed boundaries and zero sources imposed through the model's bc_type_* hooks"]
REQUIRED = {"ad-flux": 0.08, "closed-with-dirichlet-typed-enthalpy-flux": 0.06}


def _known_adflux_energy(s):
    """Energy balance with the differentiable Fourier law on a domain with at least one fracture (an interface whose
    conductive flux is dropped from the matrix-side face fluxes)."""
    return bool(s.get("adflux")) and s["model"] == "energy" and len(s["fracs"]) >= 1


def _variant(s):
    return 1 if (s["model"] == "energy" and (s["pseed"] // 5) % 3 == 0) else 0


KNOWN = {"C04-fouriers-law-ad-drops-interface-flux": _known_adflux_energy}


def _closed_mixin(variant=0, seed=0):
    """Closed boundaries. variant 0: every flux Neumann (zero values by default). variant 1: the mass flux, the Darcy flux
    and the conductive flux are closed (Neumann, zero), while the *type* of the advective energy flux is Dirichlet on a
    random subset of the boundary faces and the boundary temperature / pressure values are arbitrary: with zero mass
    flux no energy can be advected through the boundary whatever its type says, so the domain is still closed."""
    import porepy as pp

    class ClosedBoundaries:
        def bc_type_darcy_flux(self, sd):
            return pp.BoundaryCondition(sd)

        def bc_type_fluid_flux(self, sd):
            return pp.BoundaryCondition(sd)

        def bc_type_fourier_flux(self, sd):
            return pp.BoundaryCondition(sd)

        def bc_type_enthalpy_flux(self, sd):
            if variant == 0:
                return pp.BoundaryCondition(sd)
            bf = self.domain_boundary_sides(sd).all_bf
            rng = np.random.default_rng([seed, sd.dim, sd.num_faces])
            pick = bf[rng.random(bf.size) < 0.6]
            return pp.BoundaryCondition(sd, pick, "dir")

        def bc_values_temperature(self, bg):
            if variant == 0:
                return super().bc_values_temperature(bg)
            rng = np.random.default_rng([seed, 11, bg.num_cells])
            ref = self.reference_variable_values.temperature
            return ref + (1.0 + abs(ref)) * rng.uniform(0.05, 0.5, bg.num_cells)

        def bc_values_pressure(self, bg):
            if variant == 0:
                return super().bc_values_pressure(bg)
            rng = np.random.default_rng([seed, 13, bg.num_cells])
            ref = self.reference_variable_values.pressure
            return ref + (1.0 + abs(ref)) * rng.uniform(0.05, 0.5, bg.num_cells)

    return ClosedBoundaries


def strategy(tier):
    if tier == "quick":
        return model_spec(models=("mass_balance", "energy"), dims=(2, 2, 2, 2, 3), simplex=False, nonmatching=True, adflux=("tpfa", "mpfa"))
    return model_spec(models=("mass_balance", "energy"), dims=(2, 2, 3), simplex=True, nonmatching=True, adflux=("tpfa", "mpfa"))


def warmup():
    base = {"fracs": [0], "cartesian": True, "fluid": {}, "solid": {}, "dt": 1.0, "amp": 0.1, "pseed": 0,
            "model": "energy", "dim": 2}
    build_model(base, extra_mixins=(_closed_mixin(),)).equation_system.assemble()


def check(spec):
    variant = _variant(spec)
    m = build_model(spec, extra_mixins=(_closed_mixin(variant, spec["pseed"]),))
    es = m.equation_system
    x = random_state(m, spec, 0)
    xt = random_state(m, spec, 1)
    es.set_variable_values(xt, time_step_index=0)
    es.set_variable_values(x, iterate_index=0)
    m.before_nonlinear_iteration()
    sds = m.mdg.subdomains()
    dt = float(m.time_manager.dt)
    labels = model_labels(spec, m)
    if variant:
        labels.append("closed-with-dirichlet-typed-enthalpy-flux")
    balances = [("mass_balance_equation", m.fluid_mass(sds), "mass")]
    if spec["model"] == "energy":
        # total_internal_energy is an energy density: the equation integrates it over the cells
        balances.append(("energy_balance_equation", m.volume_integral(m.total_internal_energy(sds), sds, dim=1), "energy"))
    for eq_name, acc_op, tag in balances:
        r = -np.asarray(es.assemble(evaluate_jacobian=False, equations=[eq_name], state=x.copy()))
        ncells = sum(sd.num_cells for sd in sds)
        require(r.size == ncells, tag + "-residual-size", f"{r.size} residual entries for {ncells} cells")
        M1 = np.asarray(es.evaluate(acc_op, state=x.copy()), dtype=float)
        M0 = np.asarray(es.evaluate(acc_op.previous_timestep()), dtype=float)
        rate = (M1.sum() - M0.sum()) / dt
        scale = float(np.abs(r).sum() + (np.abs(M1).sum() + np.abs(M0).sum()) / dt) + 1e-300
        err = abs(float(r.sum()) - rate)
        require(err <= 1e-9 * scale, tag + "-not-conserved",
                lambda: f"sum of {eq_name} residuals {r.sum():.12e} vs accumulation rate {rate:.12e} "
                        f"(diff {err:.3e}, scale {scale:.3e})")
    if m.mdg.num_interfaces() > 0:
        lam = es.get_variable_values([m.interface_darcy_flux(m.mdg.interfaces())], iterate_index=0)
        if np.any(lam != 0):
            labels.append("nonzero-interface-flux")
    return {"labels": labels, "nontrivial": len(spec["fracs"]) > 0}
