"""One worker process: generate cases for one property with a derived seed, run the
check on each, collect failures by bucket, then shrink one witness per bucket.

usage: python -m pbt.worker <prop> <tier> <seed> <shard> <nshards> <cases> <seconds> <outfile>
"""
from __future__ import annotations

import importlib
import json
import sys
import time
import traceback
import warnings

from .core import HarnessError, StopRun, Violation, abbreviate, bucket_of, canon, spec_hash, to_jsonable

MAX_BUCKETS_SHRUNK = 3


def load_prop(pid: str):
    return importlib.import_module(f"pbt.props.{pid.lower()}")


def known_predicates(prop, open_ids):
    preds = getattr(prop, "KNOWN", {}) or {}
    return {k: v for k, v in preds.items() if k in open_ids}


class Collector:
    def __init__(self, prop, preds):
        self.prop = prop
        self.preds = preds
        self.evaluations = 0
        self.excluded_known = {}
        self.labels = {}
        self.nontrivial = set()
        self.samples = []
        self.failures = {}  # bucket -> dict
        self.failure_counts = {}
        self.harness_errors = []

    def excluded(self, spec) -> bool:
        for k, p in self.preds.items():
            if p(spec):
                self.excluded_known[k] = self.excluded_known.get(k, 0) + 1
                return True
        return False

    def run_one(self, spec) -> None:
        self.evaluations += 1
        if self.excluded(spec):
            return
        try:
            with warnings.catch_warnings():
                warnings.simplefilter("ignore")
                info = self.prop.check(spec) or {}
        except StopRun:
            raise
        except HarnessError as e:
            self.harness_errors.append("".join(traceback.format_exception(e))[-3000:])
            return
        except Exception as e:  # noqa: BLE001 - every exception from the code under test is a finding
            b = bucket_of(e)
            if b[1] == "harness" and b[0] != "Violation":
                self.harness_errors.append("".join(traceback.format_exception(e))[-3000:])
                return
            key = "|".join(b)
            self.failure_counts[key] = self.failure_counts.get(key, 0) + 1
            cur = self.failures.get(key)
            size = len(canon(spec))
            if cur is None or size < cur["size"]:
                self.failures[key] = {
                    "bucket": list(b),
                    "spec": to_jsonable(spec),
                    "size": size,
                    "message": str(e)[:2000],
                    "traceback": "".join(traceback.format_exception(e))[-3000:],
                    "shrunk": False,
                }
            return
        for lab in info.get("labels", ()):
            self.labels[lab] = self.labels.get(lab, 0) + 1
        if info.get("nontrivial", False):
            h = spec_hash(spec)
            if h not in self.nontrivial:
                self.nontrivial.add(h)
                if len(self.samples) < 3:
                    self.samples.append(abbreviate(spec))


def hyp_settings(cases, phases):
    from hypothesis import HealthCheck, settings

    return settings(
        max_examples=cases,
        database=None,
        deadline=None,
        derandomize=False,
        report_multiple_bugs=False,
        phases=phases,
        suppress_health_check=[
            HealthCheck.too_slow,
            HealthCheck.data_too_large,
            HealthCheck.large_base_example,
        ],
        print_blob=False,
    )


def search(prop, tier, hseed, cases, deadline, col: Collector):
    from hypothesis import Phase, given
    from hypothesis import seed as hyp_seed

    strat = prop.strategy(tier)

    @hyp_seed(hseed)
    @hyp_settings(cases, [Phase.generate])
    @given(strat)
    def t(spec):
        if time.time() > deadline:
            raise StopRun()
        col.run_one(spec)

    try:
        t()
        return False
    except StopRun:
        return True


def shrink(prop, tier, hseed, cases, deadline, preds, bucket_key):
    """Re-run the same seeded generation; fail only for `bucket_key`; let hypothesis shrink."""
    from hypothesis import Phase, given
    from hypothesis import seed as hyp_seed

    strat = prop.strategy(tier)
    best = {"spec": None, "size": None, "last": None, "msg": None, "tb": None, "calls": 0}

    @hyp_seed(hseed)
    @hyp_settings(cases, [Phase.generate, Phase.shrink])
    @given(strat)
    def t(spec):
        if time.time() > deadline:
            raise StopRun()
        best["calls"] += 1
        for p in preds.values():
            if p(spec):
                return
        try:
            with warnings.catch_warnings():
                warnings.simplefilter("ignore")
                prop.check(spec)
        except StopRun:
            raise
        except HarnessError:
            return
        except Exception as e:  # noqa: BLE001
            if "|".join(bucket_of(e)) != bucket_key:
                return
            size = len(canon(spec))
            best["last"] = to_jsonable(spec)
            if best["size"] is None or size <= best["size"]:
                best.update(spec=to_jsonable(spec), size=size, msg=str(e)[:2000],
                            tb="".join(traceback.format_exception(e))[-3000:])
            raise

    completed = False
    try:
        t()
        completed = True
    except StopRun:
        pass
    except BaseException:  # noqa: BLE001 - hypothesis re-raises the minimal failure
        completed = True
    if best["spec"] is None:
        return None
    if completed and best["last"] is not None:
        # hypothesis replays its minimal example last
        spec = best["last"]
        try:
            prop.check(spec)
        except Exception as e:  # noqa: BLE001
            if "|".join(bucket_of(e)) == bucket_key:
                return {"spec": spec, "size": len(canon(spec)), "message": str(e)[:2000],
                        "traceback": "".join(traceback.format_exception(e))[-3000:], "shrunk": True,
                        "shrink_calls": best["calls"]}
    return {"spec": best["spec"], "size": best["size"], "message": best["msg"], "traceback": best["tb"],
            "shrunk": completed, "shrink_calls": best["calls"]}


def enumerate_run(prop, tier, shard, nshards, deadline, col: Collector):
    for spec in prop.enumerate(tier, shard, nshards):
        if time.time() > deadline:
            return True
        col.run_one(spec)
    return False


def warm(pid):
    """Populate the numba on-disk cache from one process (import compiles eagerly)."""
    import porepy  # noqa: F401

    prop = load_prop(pid)
    if hasattr(prop, "warmup"):
        prop.warmup()
    return 0


def main(argv):
    if argv[0] == "--warm":
        return warm(argv[1])
    pid, tier, seed, shard, nshards, cases, seconds, out = argv[:8]
    open_ids = set(argv[8].split(",")) if len(argv) > 8 and argv[8] else set()
    seed, shard, nshards, cases, seconds = int(seed), int(shard), int(nshards), int(cases), float(seconds)
    t0 = time.time()
    res = {"shard": shard, "ok": False}
    try:
        prop = load_prop(pid)
        preds = known_predicates(prop, open_ids)
        col = Collector(prop, preds)
        if hasattr(prop, "warmup"):
            try:
                prop.warmup()
            except Exception:  # noqa: BLE001 - a broken library shows up in the cases themselves
                pass
        t1 = time.time()
        deadline = t1 + seconds
        hseed = seed * 1000 + shard
        enum = getattr(prop, "enumerate", None)
        exhaustive = False
        if enum is not None and getattr(prop, "ENUMERATE_TIERS", ()) and tier in prop.ENUMERATE_TIERS:
            stopped = enumerate_run(prop, tier, shard, nshards, deadline, col)
            exhaustive = not stopped
        else:
            stopped = search(prop, tier, hseed, cases, deadline, col)
            # shrink one witness per bucket
            sdl = time.time() + (60 if tier == "quick" else 300)
            for key in list(col.failures)[:MAX_BUCKETS_SHRUNK]:
                r = shrink(prop, tier, hseed, cases, sdl, preds, key)
                if r is not None and r["size"] <= col.failures[key]["size"]:
                    col.failures[key].update(r)
        res.update(
            ok=True,
            evaluations=col.evaluations,
            excluded_known=col.excluded_known,
            labels=col.labels,
            nontrivial=sorted(col.nontrivial),
            samples=col.samples,
            failures=col.failures,
            failure_counts=col.failure_counts,
            harness_errors=col.harness_errors[:5],
            n_harness_errors=len(col.harness_errors),
            stopped_by_budget=bool(stopped),
            exhaustive=exhaustive,
            warmup_s=t1 - t0,
            wall_s=time.time() - t0,
        )
    except BaseException as e:  # noqa: BLE001
        res["error"] = "".join(traceback.format_exception(e))[-6000:]
    with open(out, "w") as f:
        json.dump(res, f)
    return 0 if res["ok"] else 2


if __name__ == "__main__":
    sys.exit(main(sys.argv[1:]))
