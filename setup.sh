#!/bin/bash
# Offline setup: make sure hypothesis is importable from /venv and warm the numba cache.
set -u
cd "$(dirname "${BASH_SOURCE[0]}")" || exit 2
PY=/venv/bin/python
if ! $PY -c "import hypothesis" 2>/dev/null; then
  /venv/bin/pip install --no-index --find-links /opt/veriftools/wheels hypothesis || exit 2
fi
$PY -c "import hypothesis, numpy, scipy; print('hypothesis', hypothesis.__version__)" || exit 2
export PYTHONPATH="${VERIF_REPO:-/repo}/src:$PWD"
NUMBA_CACHE_DIR=$($PY -c "from pbt.runner import numba_cache_dir; print(numba_cache_dir())") || exit 2
export NUMBA_CACHE_DIR
$PY -c "import porepy" || exit 2
echo "setup ok (numba cache: $NUMBA_CACHE_DIR)"
