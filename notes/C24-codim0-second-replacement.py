"""Observation made while building C24's chain scenario (NOT judged by any check, not a recorded finding):
two 1-d grids joined by a 0-d interface of codimension 0; replacing the primary grid (lower id) works, but the
container then lists the newer grid as the SECOND member of the pair while the MortarGrid still treats it as
primary; replacing the grid that is now first raises inside MortarGrid.update_primary.
Run: PYTHONPATH=/repo/src /venv/bin/python notes/C24-codim0-second-replacement.py"""
import numpy as np
import scipy.sparse as sps

import porepy as pp

a = pp.CartGrid(np.array([2]), np.array([1.0])); a.compute_geometry()
b = pp.CartGrid(np.array([2]), np.array([1.0])); b.nodes[0] += 1.0; b.compute_geometry()
mdg = pp.MixedDimensionalGrid()
mdg.add_subdomains([a, b])
fm = sps.csc_matrix((np.ones(1), (np.array([0]), np.array([a.num_faces - 1]))), shape=(b.num_faces, a.num_faces))
pt = pp.PointGrid(np.array([1.0, 0.0, 0.0])); pt.compute_geometry()
mg = pp.MortarGrid(0, {pp.grids.mortar_grid.MortarSides.NONE_SIDE: pt}, fm, codim=0)
mdg.add_interface(mg, (a, b), fm)
print("pair ids at start:", [g.id for g in mdg.interface_to_subdomain_pair(mg)], "(a, b) =", (a.id, b.id))
c = pp.refinement.refine_grid_1d(a, 2); c.compute_geometry()
mdg.replace_subdomains_and_interfaces(sd_map={a: c})
print("after replacing a by c (id %d): pair ids" % c.id, [g.id for g in mdg.interface_to_subdomain_pair(mg)])
d = b.copy()
try:
    mdg.replace_subdomains_and_interfaces(sd_map={b: d})
    print("second replacement (of b, now the first member) succeeded")
except Exception as e:  # noqa: BLE001
    print("second replacement (of b, now the first member) raised:", type(e).__name__, e)
