#!/usr/bin/env python3
"""Print the prompt for a red-team sub-agent for one property (only the property text is disclosed)."""
import json, sys
pid = sys.argv[1]
rnd = sys.argv[2] if len(sys.argv) > 2 else ""
p = next(json.loads(l) for l in open('/verif/properties.jsonl') if json.loads(l)['id'] == pid)
wt = f"/tmp/seed{rnd}-{pid}"
prev = ""
if rnd:
    import os
    items = []
    for name in [pid] + [f"{pid}-{k}" for k in range(2, int(rnd))]:
        mf = f"/verif/seeded/{name}/meta.json"
        if os.path.exists(mf):
            m = json.load(open(mf))
            items.append("  PREVIOUS CHANGE: " + str(m.get("summary", ""))[:700] + "\n  IT NEEDED: "
                         + str(m.get("needs_to_manifest", ""))[:400])
    if items:
        prev = ("\n\nNOTE: colleagues already delivered the following change(s) for this property; yours must be DIFFERENT "
                "in mechanism and location from all of them (another function among the relevant ones, another clause of the "
                "property statement, another kind of slip - prefer stateful / multi-step sequences, two cooperating sites that "
                "each look fine alone, caching or aliasing slips, tolerance / scaling / unit slips, dtype or storage-format "
                "slips, or rarely used code paths, options and argument forms):\n" + "\n".join(items))
print(f"""You are a software engineer helping to evaluate how robust a test effort is. You work ONLY inside the git worktree {wt} (a checkout of the Python library pmgbergen/porepy; Python interpreter: /venv/bin/python; always run with the environment variable PYTHONPATH={wt}/src so that this checkout is imported, e.g. `cd {wt} && PYTHONPATH={wt}/src /venv/bin/python demo.py`). There is no network. The directory /verif is OFF LIMITS: do not read, list or use anything in it. Do not touch /repo.

The library is supposed to satisfy this property:

TITLE: {p['title']}
STATEMENT: {p['statement']}
QUANTIFIED OVER: {p['quantifier']['text']}{prev}
RELEVANT SOURCE FILES: {', '.join(p['anchors']['files'])}

YOUR TASK: make ONE realistic change to the library source under {wt}/src/porepy that BREAKS this property, while the code still imports and the repository's existing tests still pass. It should look like a slip a developer could plausibly make (a refactoring, an 'optimisation', an off-by-one, a swapped argument, a dropped special case, a stale cache, two sites that each look fine alone ...), NOT sabotage that any ordinary use would expose at once: the change must need something specific to manifest - an unusual but valid input, a particular multi-step sequence of operations, a particular configuration - so that the common paths exercised by the existing tests stay green.

Steps:
1. Read the relevant source and the existing tests under {wt}/tests that exercise it, to learn what the tests pin down and what they do not.
2. Make the change (source files only; never edit tests).
3. Write a small standalone demonstration program {wt}-out/demo.py that checks the property on a specific input/sequence: it must exit with status 0 on the ORIGINAL code and with a non-zero status (assertion failure) on the CHANGED code. Verify both (switch with `git diff > {wt}-out/p.diff; git apply -R p.diff; ...; git apply p.diff` - NEVER use `git stash`: the stash is shared between all worktrees of the repository and other people are working in sibling worktrees).
4. Run the existing tests that cover the changed code with the change applied and confirm they pass: `cd {wt} && PYTHONPATH={wt}/src /venv/bin/python -m pytest -q -p no:cacheprovider --no-cov -x tests/<relevant files>` (CPU is scarce: run only the relevant test files, never the whole suite; if a relevant test fails, make the change subtler).
5. Deliver in the directory {wt}-out/ (create it): patch.diff (output of `git -C {wt} diff`), demo.py, and meta.json with the keys: "property" ("{pid}"), "summary" (what the change is), "needs_to_manifest" (what specific input / sequence / configuration is needed for the violation to show), "tests_run" (the pytest command lines you ran with the change applied and their outcome), "demo_original" and "demo_changed" (exit status of demo.py on original and changed code).
Leave the change applied in the worktree (uncommitted). Do not commit. Your final message should summarise the change in 3-5 sentences.""")
