#!/bin/bash
# usage: tools/reintake.sh <seeded-name> [extra intake_seed args]   e.g. tools/reintake.sh C16-2 --seconds 200
set -e
cd "$(dirname "$0")/.."
n=$1; shift
pid=${n%%-*}
d=/tmp/reintake-$n
rm -rf $d; mkdir -p $d
cp seeded/$n/patch.diff seeded/$n/demo.py $d/
python3 - "$n" "$d" <<'P'
import json,sys
m=json.load(open(f"seeded/{sys.argv[1]}/meta.json"))
for k in ("verified","checks_run","detected_by","result","history"): m.pop(k,None)
json.dump(m,open(sys.argv[2]+"/meta.json","w"),indent=1)
P
python3 tools/intake_seed.py $pid --src $d --name $n "$@"
rm -rf $d
