#!/usr/bin/env python3
"""Apply a reviewed pending fix to /repo as one 'fix:' commit and record it.

usage: tools/apply_pending.py <finding-id> <commit message file or '-' for stdin>
Moves the finding from pending/ into known_findings.json with status=fixed and the commit sha."""
import json, subprocess, sys
from pathlib import Path

ROOT = Path(__file__).resolve().parent.parent
fid = sys.argv[1]
msg = sys.stdin.read() if sys.argv[2] == "-" else Path(sys.argv[2]).read_text()
assert msg.startswith("fix:"), "commit message must start with fix:"
j = ROOT / "pending" / f"{fid}.json"
d = ROOT / "pending" / f"{fid}.diff"
entry = json.loads(j.read_text())
if subprocess.run(["git", "-C", "/repo", "status", "--porcelain", "--untracked-files=no"], capture_output=True, text=True).stdout.strip():
    sys.exit("/repo has uncommitted changes")
r = subprocess.run(["git", "-C", "/repo", "apply", "--index", str(d)], capture_output=True, text=True)
if r.returncode:
    r = subprocess.run(["git", "-C", "/repo", "apply", "--index", "-3", str(d)], capture_output=True, text=True)
    if r.returncode:
        sys.exit("patch does not apply: " + r.stderr)
subprocess.check_call(["git", "-C", "/repo", "commit", "-q", "-m", msg])
sha = subprocess.check_output(["git", "-C", "/repo", "rev-parse", "--short=9", "HEAD"], text=True).strip()
kf = json.loads((ROOT / "known_findings.json").read_text())
kf["findings"].append({"id": fid, "property": entry["property"], "status": "fixed", "commit": sha,
                       "where": entry.get("where"),
                       "what": f"fixed: property={entry['property']} {sha} {entry['what']}", "witness": entry["witness"]})
(ROOT / "known_findings.json").write_text(json.dumps(kf, indent=1))
j.unlink(); d.unlink()
print("committed", sha)
