#!/bin/bash
# usage: tools/sweep.sh "<seeds>" <ids...>   -- runs quick tier, prints one line per run
cd "$(dirname "$0")/.." || exit 2
SEEDS="$1"; shift
for id in "$@"; do for s in $SEEDS; do
  if [ "$s" = "1" ]; then EXTRA=""; else EXTRA="--no-evidence"; fi
  out=$(VERIF_SEED=$s ./check "$id" $EXTRA 2>&1); rc=$?
  echo "rc=$rc $(echo "$out" | grep -E "^$id tier" | tail -1) $(echo "$out" | grep -cE '^KNOWN-FINDING') known; $(echo "$out" | grep -E '^(VIOLATION|HARNESS)' | head -3 | tr '\n' ' ')"
done; done
