#!/usr/bin/env python3
"""Validate MANIFEST.json and every evidence file against the schemas (needs jsonschema: run with python3-vt)."""
import json, sys
from pathlib import Path
import jsonschema
ROOT = Path(__file__).resolve().parent.parent
ok = True
man = json.load(open(ROOT / "MANIFEST.json"))
try:
    jsonschema.validate(man, json.load(open("/root/.vp/MANIFEST.schema.json")))
except Exception as e:
    ok = False; print("MANIFEST invalid:", str(e)[:500])
ev_schema = json.load(open("/root/.vp/EVIDENCE.schema.json"))
ids = {json.loads(l)["id"] for l in open(ROOT / "properties.jsonl") if l.strip()}
claimed = {c["property_id"] for c in man["checks"]}
na = {c["property_id"] for c in man.get("not_applicable", [])}
if claimed | na != ids or claimed & na:
    ok = False; print("claimed/not_applicable do not partition the property list", sorted(ids - claimed - na), sorted(claimed & na))
for c in man["checks"]:
    f = Path(c["evidence_file"])
    if not f.exists():
        print("missing evidence", f); ok = False; continue
    try:
        jsonschema.validate(json.load(open(f)), ev_schema)
    except Exception as e:
        ok = False; print(f, "invalid:", str(e)[:300])
print("OK" if ok else "PROBLEMS")
sys.exit(0 if ok else 1)
