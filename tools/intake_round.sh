#!/bin/bash
# usage: tools/intake_round.sh <round> <ids...> : intake every delivered seeded change of that round that is not stored yet
cd "$(dirname "$0")/.." || exit 2
r=$1; shift
for p in "$@"; do
  src=/tmp/seed$r-$p-out
  [ -f $src/meta.json ] && [ -f $src/patch.diff ] && [ -f $src/demo.py ] || { echo "$p: not delivered yet"; continue; }
  [ -f seeded/$p-$r/meta.json ] && grep -q '"result"' seeded/$p-$r/meta.json && { echo "$p: already taken"; continue; }
  echo "$p-$r: $(python3 tools/intake_seed.py $p --src $src --name $p-$r --seconds 200 2>&1 | tail -1)"
done
