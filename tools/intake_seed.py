#!/usr/bin/env python3
"""Intake of an independently seeded change.

usage: tools/intake_seed.py <PID> [--checks C01,C02] [--tests "tests/a.py tests/b.py"] [--cases N] [--seconds S]
Reads /tmp/seed-<PID>-out/{patch.diff,demo.py,meta.json}; in a fresh scratch worktree of /repo HEAD:
 1. demo.py must exit 0 without the patch and non-zero with it;
 2. optionally runs the given repository tests with the patch (must pass);
 3. runs the quick tier of the named checks (default: the property's own) against the patched tree.
Stores everything under /verif/seeded/<PID>/ and records what was run in meta.json."""
import argparse, json, os, shutil, subprocess, sys
from pathlib import Path

R = Path(__file__).resolve().parent.parent
ap = argparse.ArgumentParser()
ap.add_argument("pid"); ap.add_argument("--checks"); ap.add_argument("--tests", default="")
ap.add_argument("--cases"); ap.add_argument("--seconds"); ap.add_argument("--src"); ap.add_argument("--name")
a = ap.parse_args()
src = Path(a.src or f"/tmp/seed-{a.pid}-out")
name = a.name or a.pid
dst = R / "seeded" / name
dst.mkdir(parents=True, exist_ok=True)
prev = {}
if (dst / "meta.json").exists():
    try:
        prev = json.loads((dst / "meta.json").read_text())
    except Exception:
        prev = {}
for f in ("patch.diff", "demo.py", "meta.json"):
    if (src / f).exists():
        shutil.copy(src / f, dst / f)
meta = json.loads((dst / "meta.json").read_text())
if prev.get("result"):
    meta["history"] = prev.get("history", []) + [{"result": prev["result"], "detected_by": prev.get("detected_by"),
                                                   "checks_run": prev.get("checks_run")}]
    for k in ("strengthening",):
        if k in prev: meta[k] = prev[k]
wt = Path(os.environ.get("VERIF_WT", "/tmp/wt-V"))
head = subprocess.check_output(["git", "-C", "/repo", "rev-parse", "HEAD"], text=True).strip()
if not wt.exists():
    subprocess.check_call(["git", "-C", "/repo", "worktree", "add", "-q", "--detach", str(wt), head])
subprocess.check_call(["git", "-C", str(wt), "checkout", "-q", "-f", "--detach", head])
subprocess.check_call(["git", "-C", str(wt), "clean", "-qfd"])
env = dict(os.environ, PYTHONPATH=f"{wt}/src", PYTHONDONTWRITEBYTECODE="1")
demo = (dst / "demo.py").read_text().replace(str(src)[: -len("-out")] if str(src).endswith("-out") else f"/tmp/seed-{a.pid}", str(wt))
(wt / "_demo.py").write_text(demo)
def run_demo():
    r = subprocess.run(["/venv/bin/python", "_demo.py"], cwd=wt, env=env, capture_output=True, text=True, timeout=1800)
    return r.returncode, (r.stdout + r.stderr)[-600:]
rc0, out0 = run_demo()
ap_ = subprocess.run(["git", "-C", str(wt), "apply", str(dst / "patch.diff")], capture_output=True, text=True)
if ap_.returncode:
    ap_ = subprocess.run(["git", "-C", str(wt), "apply", "-3", str(dst / "patch.diff")], capture_output=True, text=True)
    if ap_.returncode:
        print("PATCH DOES NOT APPLY to current HEAD:", ap_.stderr[:500]); sys.exit(3)
rc1, out1 = run_demo()
print(f"demo: original exit {rc0}, changed exit {rc1}")
if rc0 != 0 or rc1 == 0:
    print(out0[-400:], "\n----\n", out1[-400:])
    print("REJECTED: demonstration does not discriminate on current HEAD")
ran = {"base_commit": head, "demo_original_exit": rc0, "demo_changed_exit": rc1}
if a.tests:
    t = subprocess.run(["/venv/bin/python", "-m", "pytest", "-q", "-p", "no:cacheprovider", "--no-cov", "-x"] + a.tests.split(),
                       cwd=wt, env=env, capture_output=True, text=True)
    tail = t.stdout.strip().splitlines()[-1] if t.stdout.strip() else ""
    print("tests with patch:", t.returncode, tail)
    ran["tests_with_patch"] = {"cmd": "pytest -x " + a.tests, "exit": t.returncode, "summary": tail}
checks = (a.checks or a.pid).split(",")
det = []
results = {}
for c in checks:
    cmd = ["./check", c, "--no-evidence"]
    if a.cases: cmd += ["--cases", a.cases]
    if a.seconds: cmd += ["--seconds", a.seconds]
    r = subprocess.run(cmd, cwd=R, env=dict(os.environ, VERIF_REPO=str(wt)), capture_output=True, text=True)
    lines = [l for l in r.stdout.splitlines() if l.startswith(("VIOLATION", "HARNESS", "--- failure", c + " tier"))]
    print("\n".join(lines[-6:])); print(f"==> {c}: exit {r.returncode}")
    results[c] = {"exit": r.returncode, "summary": next((l for l in lines if l.startswith(c + " tier")), ""),
                  "buckets": [l[:160] for l in lines if l.startswith("--- failure")][:4]}
    if r.returncode == 1: det.append(c)
    # copy the replay file of the first violation as evidence
    for l in lines:
        if l.startswith("VIOLATION"):
            rp = l.split("replay=")[1].strip()
            if os.path.exists(rp): shutil.copy(rp, dst / f"replay-{c}.json")
            break
subprocess.check_call(["git", "-C", str(wt), "checkout", "-q", "-f", "--detach", head])
(wt / "_demo.py").unlink(missing_ok=True)
meta.update(verified=ran, checks_run=results, detected_by=", ".join(det) if det else "none",
            result="caught" if det else "MISSED")
(dst / "meta.json").write_text(json.dumps(meta, indent=1))
print("RESULT:", meta["result"], meta["detected_by"])
