#!/usr/bin/env python3
"""Sensitivity helper: apply one textual mutant to a scratch worktree of /repo and run checks on it.

usage: tools/mut.py <check ids comma-separated> <file rel. to src/porepy> <old> <new> [extra ./check args]
The worktree (/tmp/wt-M by default, env MUT_WT) is reset to /repo's HEAD before and after."""
import os, subprocess, sys
from pathlib import Path

wt = Path(os.environ.get("MUT_WT", "/tmp/wt-M"))
ids, rel, old, new = sys.argv[1:5]
extra = sys.argv[5:]
head = subprocess.check_output(["git", "-C", "/repo", "rev-parse", "HEAD"], text=True).strip()
if not wt.exists():
    subprocess.check_call(["git", "-C", "/repo", "worktree", "add", "-q", "--detach", str(wt), head])
subprocess.check_call(["git", "-C", str(wt), "checkout", "-q", "-f", "--detach", head])
p = wt / "src" / "porepy" / rel
s = p.read_text()
old = old.encode().decode("unicode_escape"); new = new.encode().decode("unicode_escape")
if s.count(old) != 1:
    print(f"MUTANT NOT APPLICABLE: {s.count(old)} occurrences of the old text"); sys.exit(3)
p.write_text(s.replace(old, new))
rc_all = []
try:
    for cid in ids.split(","):
        r = subprocess.run(["./check", cid, "--no-evidence", "--workers", os.environ.get("MUT_WORKERS", "4")] + extra,
                           cwd=str(Path(__file__).resolve().parent.parent), env=dict(os.environ, VERIF_REPO=str(wt)),
                           stdout=subprocess.PIPE, stderr=subprocess.STDOUT, text=True)
        lines = [l for l in r.stdout.splitlines() if l.startswith(("VIOLATION", "HARNESS", "---", cid + " tier"))]
        print("\n".join(lines[-8:]))
        print(f"==> {cid}: exit {r.returncode} ({'CAUGHT' if r.returncode == 1 else 'MISSED' if r.returncode == 0 else 'HARNESS ERROR'})")
        rc_all.append(r.returncode)
finally:
    subprocess.check_call(["git", "-C", str(wt), "checkout", "-q", "-f", "--detach", head])
sys.exit(0 if all(rc == 1 for rc in rc_all) else 1)
