#!/usr/bin/env python3
"""Regenerate the generated parts of DESIGN.md (between BEGIN/END markers):
  FINDINGS  - from known_findings.json (+ pending/)
  SEEDED    - from seeded/*/meta.json"""
import json, re
from pathlib import Path
R = Path(__file__).resolve().parent.parent
d = (R / "DESIGN.md").read_text()

def block(name, text):
    global d
    b, e = f"<!-- {name}:BEGIN -->", f"<!-- {name}:END -->"
    assert b in d and e in d, name
    d = d[: d.index(b) + len(b)] + "\n" + text + "\n" + d[d.index(e):]

kf = json.loads((R / "known_findings.json").read_text())["findings"]
for p in sorted((R / "pending").glob("*.json")):
    e = json.loads(p.read_text()); e.setdefault("status", "open (pending triage)"); kf.append(e)
rows = ["| Finding id | Prop | Where | Status | What fails |", "|---|---|---|---|---|"]
for e in sorted(kf, key=lambda e: (e["property"], e["id"])):
    what = re.sub(r"^fixed: property=\S+ \S+ ", "", e["what"]).replace("|", "\\|").replace("\n", " ")
    if len(what) > 330: what = what[:327] + "..."
    st = f"fixed `{e['commit']}`" if e.get("status") == "fixed" else "**" + e.get("status", "open") + "**"
    rows.append(f"| {e['id']} | {e['property']} | `{(e.get('where') or '').replace('src/porepy/','')}` | {st} | {what} |")
nfix = sum(1 for e in kf if e.get("status") == "fixed"); nopen = len(kf) - nfix
block("FINDINGS", f"{nfix} repaired by `fix:` commits, {nopen} open (recorded, reported as KNOWN-FINDING).\n\n" + "\n".join(rows))

def res(e):
    r = e.get("result", "")
    if r.startswith("caught") and any(h.get("result") == "MISSED" for h in e.get("history", [])):
        r = r.replace("caught", "missed at first, caught after strengthening", 1)
    return r


rows = ["| Seeded change | Prop | What it needs to manifest | Detected by | Result | Strengthening it prompted |", "|---|---|---|---|---|---|"]
for m in sorted((R / "seeded").glob("*/meta.json")):
    e = json.loads(m.read_text())
    rows.append(f"| {m.parent.name} | {e.get('property')} | {str(e.get('needs_to_manifest',''))[:260].replace('|','/')} | "
                f"{e.get('detected_by','')} | {res(e)} | {str(e.get('strengthening','')).replace('|','/')} |")
block("SEEDED", "\n".join(rows))
(R / "DESIGN.md").write_text(d)
print("DESIGN.md tables regenerated:", nfix, "fixed,", nopen, "open")
