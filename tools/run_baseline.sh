#!/bin/bash
# Run the repository's pinned test suite (guard off) and compare with BASELINE.json stable_pass.
# usage: tools/run_baseline.sh [workers] ; writes /var/tmp/baseline_run.xml and prints regressions
N=${1:-3}
cd /repo || exit 2
env -u PMGBERGEN_POREPY_VERIF /venv/bin/python -m pytest -ra -q -p no:cacheprovider --timeout=900 \
  --continue-on-collection-errors --no-cov -n "$N" --junitxml=/var/tmp/baseline_run.xml > /var/tmp/baseline_run.log 2>&1
python3 - <<'PY'
import json, xml.etree.ElementTree as ET
base = json.load(open('/root/.vp/BASELINE.json'))
stable = set(base['stable_pass'])
root = ET.parse('/var/tmp/baseline_run.xml').getroot()
passed, failed = set(), set()
for tc in root.iter('testcase'):
    name = f"{tc.get('classname')}::{tc.get('name')}"
    bad = any(ch.tag in ('failure', 'error') for ch in tc)
    skipped = any(ch.tag == 'skipped' for ch in tc)
    if bad: failed.add(name)
    elif not skipped: passed.add(name)
missing = sorted(stable - passed)
print(f"stable_pass={len(stable)} passed_now={len(passed)} failed_now={len(failed)} stable-but-not-passing={len(missing)}")
for m in missing[:40]: print("  REGRESSION:", m)
PY
