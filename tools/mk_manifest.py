#!/usr/bin/env python3
"""Regenerate MANIFEST.json from the check modules present in pbt/props (each provides
ID, LEVEL_TEXT, LEVEL_NOTE, TECHNIQUE, DESIGN_REF) and list every other property under
not_applicable with the reason recorded in tools/not_applicable.json."""
import ast
import json
import sys
from pathlib import Path

ROOT = Path(__file__).resolve().parent.parent


def consts(path):
    out = {}
    tree = ast.parse(path.read_text())
    for node in tree.body:
        if isinstance(node, ast.Assign) and len(node.targets) == 1 and isinstance(node.targets[0], ast.Name):
            try:
                out[node.targets[0].id] = ast.literal_eval(node.value)
            except Exception:
                pass
    return out


def main():
    props = [json.loads(l) for l in (ROOT / "properties.jsonl").read_text().splitlines() if l.strip()]
    na_file = ROOT / "tools" / "not_applicable.json"
    na_reasons = json.loads(na_file.read_text()) if na_file.exists() else {}
    checks, na = [], []
    for p in props:
        pid = p["id"]
        mod = ROOT / "pbt" / "props" / f"{pid.lower()}.py"
        ready = set((ROOT / "tools" / "ready.txt").read_text().split())
        if mod.exists() and pid not in na_reasons and pid in ready:
            c = consts(mod)
            checks.append({
                "property_id": pid,
                "quick_cmd": f"./check {pid} --tier quick",
                "thorough_cmd": f"./check {pid} --tier thorough",
                "evidence_file": f"/verif/evidence/{pid}.json",
                "replay_cmd_template": f"./check {pid} --replay {{path}}",
                "engine": "pbt",
                "level_claimed": {
                    "category": "exploration",
                    "text": c.get("LEVEL_TEXT", "Generated-input search against an explicit oracle; see DESIGN.md."),
                    "design_ref": c.get("DESIGN_REF", f"DESIGN.md section 4, {pid}"),
                },
                "level_note": c.get("LEVEL_NOTE", "Trusts numpy/scipy reference semantics and the harness oracle; "
                                    "finds violations, never proves absence."),
                "technique": c.get("TECHNIQUE", "property-based testing (Hypothesis) against an explicit oracle"),
            })
        else:
            na.append({"property_id": pid, "reason": na_reasons.get(pid, "check not built yet (work in progress); "
                       "the technique applies, see DESIGN.md section 4")})
    man = {
        "version": 1,
        "setup_cmd": "./setup.sh",
        "hooks": {
            "guard": "PMGBERGEN_POREPY_VERIF",
            "enable": "no source hooks are needed: every property is observable through public API; ./check "
                      "exports PMGBERGEN_POREPY_VERIF=1 and imports /repo/src as it stands",
            "baseline_off_cmd": "cd /repo && /venv/bin/python -m pytest -ra -q -p no:cacheprovider --timeout=900 "
                                "--continue-on-collection-errors",
            "source_commits": [],
            "add_only": True,
        },
        "engines": [{
            "name": "pbt",
            "path": "/verif/pbt",
            "serves_properties": [c["property_id"] for c in checks],
            "kind_free_text": "Hypothesis-driven property-based testing: spec strategies -> deterministic check(spec) "
                              "with explicit oracles, sharded over worker processes, collect-then-shrink, JSON replay",
        }],
        "checks": checks,
        "not_applicable": na,
        "notes": "Genuine defects found are repaired by 'fix:' commits in /repo or listed in known_findings.json; "
                 "see DESIGN.md section 5.",
    }
    (ROOT / "MANIFEST.json").write_text(json.dumps(man, indent=1) + "\n")
    print(f"{len(checks)} checks, {len(na)} not_applicable")


if __name__ == "__main__":
    sys.exit(main())
