#!/bin/bash
# short run of every thorough tier (generator paths that only exist there: gmsh grids, enumeration, deeper trees)
cd "$(dirname "$0")/.." || exit 2
for id in $(cat tools/ready.txt); do
  out=$(./check "$id" --tier thorough --cases ${1:-400} --seconds ${2:-90} --no-evidence 2>&1); rc=$?
  echo "rc=$rc $(echo "$out" | grep -E "^$id tier" | tail -1) $(echo "$out" | grep -E '^(VIOLATION|HARNESS)' | head -2 | tr '\n' ' ')"
done
